"""C16 Field arithmetic: undefined cases are errors, bounded, canonical; comparison family agrees."""
import re

from astlib import calls, find_fn, fns_in_file, is_node, last, render, site, strip, walk
from pathcond import conditions_to, fact_str, let_env

TITLE = "Field arithmetic"
LEVEL_TEXT = (
    "every division/remainder has a divisor that is the field, a non-zero constant, a power of two or zero-tested with an error"
    " return; every exponent of an integer power is bounded by the field's bit length; every public operation returns a canonical"
    " value (abstract interpretation over {canonical, boolean, field, positive, any}); the six comparison functions realise the"
    " right truth function of the trichotomy (abstract evaluation over LT/EQ/GT) on the signed representatives; integer quotient and remainder on the canonical ones."
)
NOT_DECIDED = "equality with Circom's numeric semantics for all operands (e.g. the value of ~0, masks, shift wrap-around): numerical, not visible in shape."
TRUSTED = ["syn parser", "num-bigint: mod_inverse returns None for a non-invertible element, modpow result is reduced", "operands are canonical field elements (C06.5 guards literals)"]

MA = "circom_algebra/src/modular_arithmetic.rs"


_mod_cache = {}


def module_fns():
    """the functions of modular_arithmetic.rs with their parameters renamed by position: (left, right, field) for the
    binary operations, (elem, field) for the unary ones; a one-parameter helper's parameter is `field` when every call
    site passes the caller's field.  The rules below can then speak about `field` whatever the source calls it."""
    import copy

    import alpha
    import facts as _facts

    key = id(_facts.ast())
    if key in _mod_cache:
        return _mod_cache[key]
    fns = {f["name"]: copy.deepcopy(f) for _q, f in fns_in_file(MA)}

    def rename_params(f, names):
        ps = [i for i in f["sig"]["inputs"] if not i.get("self")]
        mp = {}
        for i_, nm in zip(ps, names):
            if i_["pat"]["k"] == "PIdent" and i_["pat"]["name"] != nm:
                mp[i_["pat"]["name"]] = nm
        if mp:
            # simultaneous renaming through temporaries (a swap of names must not capture)
            tmp = {a: "__tmp_%d" % i for i, a in enumerate(mp)}
            alpha.rename(f["body"], tmp)
            alpha.rename(f["body"], {tmp[a]: b for a, b in mp.items()})
            for i_ in ps:
                alpha.rename(i_["pat"], tmp)
                alpha.rename(i_["pat"], {tmp[a]: b for a, b in mp.items()})

    for name, f in fns.items():
        ps = [i for i in f["sig"]["inputs"] if not i.get("self")]
        if name == "modulus":
            continue
        if len(ps) == 3:
            rename_params(f, ["left", "right", "field"])
        elif len(ps) == 2:
            rename_params(f, ["elem", "field"])
    for name, f in fns.items():
        ps = [i for i in f["sig"]["inputs"] if not i.get("self")]
        if len(ps) == 1 and name != "modulus":
            sites = [c for g in fns.values() for c in walk(g["body"]) if c["k"] == "Call" and c["func"]["k"] == "Path" and last(c["func"]["path"]) == name and len(c["args"]) == 1]
            if sites and all(render(strip(c["args"][0])) == "field" for c in sites):
                rename_params(f, ["field"])
            else:
                rename_params(f, ["elem"])
    from astlib import simplify_body

    for f in fns.values():
        f["body_as_written"] = f["body"]
        f["body"] = simplify_body(f["body"])
    _mod_cache[key] = fns
    return fns


# ------------------------------------------------------------------ C16.1 / C16.2
def resolve(e, fn, at, depth=0):
    """follow simple lets (within fn, before `at`) to the defining expression"""
    e = strip(e)
    if depth > 6:
        return e
    if e["k"] == "Path" and "::" not in e["path"]:
        le = let_env(fn["body"], at)
        if e["path"] in le:
            return resolve(le[e["path"]], fn, at, depth + 1)
    return e


def is_nonzero_const(e, fn, at):
    e = resolve(e, fn, at)
    t = render(e).replace(" ", "")
    m = re.fullmatch(r"(?:BigInt::from\()?(-?\d+)\)?", t)
    if m and int(m.group(1)) != 0:
        return True
    if e["k"] == "Call" and last(render(e["func"])) == "pow" and "num_traits" in render(e["func"]):
        base = resolve(e["args"][0], fn, at)
        return is_nonzero_const(base, fn, at)
    if e["k"] == "Binary" and e["op"] == "+":
        # (field / 2) + 1 and similar: positive + positive constant
        return is_nonzero_const(e["r"], fn, at)
    return False


def zero_tested(divisor, fn, at):
    """the divisor (a local) is known non-zero on the path to `at` through an `== zero` test whose
    true branch returns Err"""
    name = render(strip(divisor))
    # facts are stated over let definitions (pathcond.resolve_named): compare with the divisor's definition as well
    names = {name, render(resolve(divisor, fn, at))}
    conds = conditions_to(fn["body"], at) or []
    for f in conds:
        if f[0] != "if":
            continue
        e = f[1]
        if e["k"] == "Binary" and e["op"] in ("==", "!="):
            l, r = render(strip(e["l"])), render(strip(e["r"]))
            other = None
            if l in names:
                other = e["r"]
            elif r in names:
                other = e["l"]
            if other is None:
                continue
            o = resolve(other, fn, at)
            ot = render(o).replace(" ", "")
            is_zero = ot in ("BigInt::from(0)", "0", "BigInt::zero()", "Zero::zero()", "constant_false()")
            if is_zero and ((e["op"] == "==" and not f[2]) or (e["op"] == "!=" and f[2])):
                return True
        if e["k"] == "MethodCall" and e["method"] == "is_zero" and render(strip(e["recv"])) in names and not f[2]:
            return True
    return False


def rule_divisors(ctx):
    R = "C16.1"
    ctx.rule(R, "every `/`, `%` and modulus(a, b) in the field arithmetic has a divisor that is the field, a non-zero constant, a power of a non-zero constant, or a value tested against zero with an error return on the zero branch")
    fns = module_fns()
    if not fns:
        return ctx.missing(R, MA)
    n = 0
    for name, fn in sorted(fns.items()):
        params = {i["pat"]["name"]: i["ty"] for i in fn["sig"]["inputs"] if not i.get("self") and i["pat"]["k"] == "PIdent"}
        sites = []
        for x in walk(fn["body"]):
            if x["k"] == "Binary" and x["op"] in ("/", "%", "/=", "%="):
                sites.append((x["op"], x["r"], x))
            elif x["k"] == "Call" and render(x["func"]) == "modulus" and len(x["args"]) == 2:
                sites.append(("modulus", x["args"][1], x))
        for i, (op, div, node) in enumerate(sites):
            n += 1
            d = strip(div)
            dt = render(d)
            ok = False
            why = ""
            if dt == "field" and "field" in params:
                ok, why = True, "divisor is the field"
            elif name == "modulus" and dt in params:
                ok, why = True, "modulus itself: divisor obligations are at its call sites"
            elif is_nonzero_const(d, fn, node):
                ok, why = True, "non-zero constant / power of a constant"
            elif zero_tested(d, fn, node):
                ok, why = True, "zero-tested with an error return"
            else:
                why = "divisor `%s` is caller-controlled and not tested against zero on this path (%s)" % (dt, [fact_str(c) for c in (conditions_to(fn["body"], node) or [])])
            ctx.check(R, "%s/%s#%d" % (name, op, i + 1), ok, why, site(MA, node))
    ctx.floor(R, "division sites", n, 14)
    # the zero branch really is an error
    for name in ("idiv", "mod_op", "div"):
        fn = fns.get(name)
        if fn is None:
            ctx.missing(R, name)
            continue
        errs = [x for x in walk(fn["body"]) if (x["k"] == "Call" and render(x["func"]) == "Err") or (x["k"] == "MethodCall" and x["method"] == "ok_or")]
        ctx.check(R, name + "/has-error-result", bool(errs) and "Result<" in (fn["sig"]["output"] or ""), "returns %s" % fn["sig"]["output"], site(MA, fn))


def bits_linear(e, fn, at, depth=0):
    """expr -> (coefficient of the field's bit length, constant) or None"""
    e = resolve(e, fn, at)
    if depth > 8:
        return None
    t = render(e).replace(" ", "")
    if t in ("bit_representation(field).1.len()", "field.bits()"):
        return (1, 0)
    m = re.fullmatch(r"(?:BigInt::from\()?(\d+)\)?", t)
    if m:
        return (0, int(m.group(1)))
    if e["k"] == "Binary" and e["op"] in ("+", "-"):
        a, b = bits_linear(e["l"], fn, at, depth + 1), bits_linear(e["r"], fn, at, depth + 1)
        if a is None or b is None:
            return None
        sg = 1 if e["op"] == "+" else -1
        return (a[0] + sg * b[0], a[1] + sg * b[1])
    if e["k"] == "Cast":
        return bits_linear(e["e"], fn, at, depth + 1)
    return None


def rule_exponents(ctx):
    R = "C16.2"
    ctx.rule(R, "every exponent of an integer power that derives from an operand is bounded, on every path to the power, by a comparison against a quantity derived from the field's bit length")
    fns = module_fns()
    n = 0
    for name, fn in sorted(fns.items()):
        params = [i["pat"]["name"] for i in fn["sig"]["inputs"] if not i.get("self") and i["pat"]["k"] == "PIdent"]
        for x in walk(fn["body"]):
            if not (x["k"] == "Call" and last(render(x["func"])) == "pow" and "num_traits" in render(x["func"]) and len(x["args"]) == 2):
                continue
            n += 1
            ex = x["args"][1]
            exr = resolve(ex, fn, x)
            names = {p["path"] for p in walk(exr) if p["k"] == "Path"} | {render(strip(ex))}
            from_operand = any(p in names for p in params if p != "field")
            key = "%s/pow(%s)" % (name, render(strip(ex)))
            if not from_operand:
                # derived from the field only (mask): bounded by construction
                ctx.ok(R, key, "exponent derives from the field only: %s" % render(exr)[:80], site(MA, x))
                continue
            # look for a bounding fact on the path
            conds = conditions_to(fn["body"], x) or []
            bounded = False
            seen = []
            cutoff = []
            for f in conds:
                if f[0] != "if":
                    continue
                e = f[1]
                if e["k"] != "Binary" or e["op"] not in ("<", "<=", ">", ">="):
                    continue
                l, r = strip(e["l"]), strip(e["r"])
                lt, rt = render(l), render(r)
                mentions = lambda t: any(re.search(r"\b%s\b" % re.escape(nm), t) for nm in names if nm not in ("two",))
                op, pol = e["op"], f[2]
                # normalise to: exponent (<|<=) BOUND being true
                if mentions(lt) and not mentions(rt):
                    upper = (op in ("<", "<=")) == pol
                    bound = r
                elif mentions(rt) and not mentions(lt):
                    upper = (op in (">", ">=")) == pol
                    bound = l
                else:
                    continue
                b = resolve(bound, fn, x)
                bt = render(b).replace(" ", "")
                seen.append("%s bounded by %s" % ("upper" if upper else "lower", bt))
                lin = bits_linear(bound, fn, x)
                seen[-1] += " = %s" % (lin,)
                if upper and lin is not None and lin[0] in (0, 1) and lin[1] <= 4096:
                    bounded = True
                    # the complementary exit (exponent >= bound) must not cut off representable results:
                    # it may only exist for bound >= bit length of the field
                    if lin[0] == 1 and lin[1] < 0:
                        cutoff.append("shift counts from bits%+d up to bits-1 take the early exit although their result is not zero" % lin[1])
                    if lin[0] == 0:
                        cutoff.append("constant bound %d is not derived from the field's bit length" % lin[1])
            ctx.check(R, key, bounded, "exponent `%s` comes from an operand; bounding facts on the path: %s (a bound by p/2 is not a bound on the size of 2^k)" % (render(strip(ex)), seen), site(MA, x))
            ctx.check(R, key + "/early-exit-only-beyond-the-field-width", not cutoff, "; ".join(cutoff) + " ; facts: %s" % seen, site(MA, x))
    ctx.floor(R, "power sites", n, 3)


# ------------------------------------------------------------------ C16.3 canonical results
ANY, CANON, BOOL, FIELD, POS = "any", "canon", "bool", "field", "pos"


def join(a, b):
    if a == b:
        return a
    if {a, b} <= {CANON, BOOL}:
        return CANON
    return ANY


class Canon:
    """abstract interpretation: which class does each public fn return, assuming canonical operands"""

    def __init__(self, fns):
        self.fns = fns
        self.memo = {}
        self.stack = []

    def ret(self, name):
        if name in self.memo:
            return self.memo[name]
        if name in self.stack:
            return CANON if name in ("shift_l", "shift_r") else ANY  # mutual recursion: assume, checked by the other side
        self.stack.append(name)
        fn = self.fns[name]
        env = {}
        for i in fn["sig"]["inputs"]:
            if i.get("self"):
                continue
            nm = i["pat"].get("name")
            env[nm] = FIELD if nm == "field" else CANON
        v = self.block(fn["body"], env)
        self.stack.pop()
        self.memo[name] = v
        return v

    def block(self, b, env):
        env = dict(env)
        out = None
        rets = []
        for s in b["stmts"]:
            if s["k"] == "Local" and s["init"] is not None:
                v = self.ev(s["init"], env, rets)
                for n in walk(s["pat"]):
                    if n["k"] == "PIdent":
                        env[n["name"]] = v if s["pat"]["k"] == "PIdent" else ANY
            elif s["k"] == "ExprStmt":
                v = self.ev(s["e"], env, rets)
                if not s["semi"]:
                    out = v
        for r in rets:
            out = r if out is None else join(out, r)
        return out if out is not None else ANY

    def ev(self, e, env, rets):
        e0 = e
        e = strip(e)
        k = e["k"]
        if k == "Path":
            return env.get(e["path"], ANY)
        if k == "Lit":
            if e["lit"] == "int":
                n = int(e["value"])
                return BOOL if n in (0, 1) else (POS if n > 1 else ANY)
            return ANY
        if k == "Block":
            return self.block(e, env)
        if k == "If":
            a = self.ev(e["then"], env, rets)
            b = self.ev(e["else"], env, rets) if e["else"] else ANY
            return join(a, b)
        if k == "Try":
            return self.ev(e["e"], env, rets)
        if k == "Return":
            if e["e"]:
                rets.append(self.ev(e["e"], env, rets))
            return ANY
        if k == "Call":
            f = render(e["func"])
            args = [self.ev(a, env, rets) for a in e["args"]]
            if f in ("Ok", "Some"):
                return args[0]
            if f == "Err":
                return None or CANON  # error result carries no value: neutral for the join
            if f == "BigInt::from":
                return args[0]
            if f == "modulus":
                if args[1] == FIELD:
                    return CANON
                if args[1] == CANON and args[0] == CANON:
                    return CANON  # a mod b < b <= p   (b != 0 is C16.1)
                return ANY
            if f.endswith("pow") and "num_traits" in f:
                return POS
            if f in self.fns:
                return self.ret(f)
            return ANY
        if k == "MethodCall":
            recv = self.ev(e["recv"], env, rets)
            args = [self.ev(a, env, rets) for a in e["args"]]
            m = e["method"]
            if m == "modpow" and args and args[-1] == FIELD:
                return CANON
            if m == "mod_inverse":
                return CANON
            if m in ("ok_or", "unwrap", "expect", "ok_or_else"):
                return recv
            return ANY
        if k == "Binary":
            a, b = self.ev(e["l"], env, rets), self.ev(e["r"], env, rets)
            op = e["op"]
            if op == "/":
                if a in (CANON, BOOL) and b in (POS, CANON):
                    return CANON  # a / b <= a for b >= 1 (b != 0 is C16.1)
                return ANY
            if op == "%":
                if b == POS and render(strip(e["r"])) == "2" and self.nonneg(e["l"], env, rets):
                    return BOOL
                if b == FIELD:
                    return ANY  # Rust % keeps the sign
                return ANY
            if op == "*" and a == BOOL and b == BOOL:
                return BOOL
            return ANY
        return ANY

    def nonneg(self, e, env, rets):
        e = strip(e)
        if e["k"] == "Binary" and e["op"] in ("+", "*"):
            return self.nonneg(e["l"], env, rets) and self.nonneg(e["r"], env, rets)
        return self.ev(e, env, rets) in (CANON, BOOL, POS)


def rule_canonical(ctx):
    R = "C16.3"
    ctx.rule(R, "every public operation returning a field element returns a canonical value in [0, p) (or a boolean 0/1) when its operands are canonical")
    fns = module_fns()
    ci = Canon(fns)
    n = 0
    for name, fn in sorted(fns.items()):
        if fn.get("vis") != "pub":
            continue
        out = (fn["sig"]["output"] or "").replace(" ", "")
        if out not in ("BigInt", "Result<BigInt,ArithmeticError>"):
            continue
        n += 1
        v = ci.ret(name)
        ctx.check(R, name + "/canonical-result", v in (CANON, BOOL), "abstract result class: %s" % v, site(MA, fn))
    ctx.floor(R, "public BigInt operations", n, 20)
    ctx.table("result classes", dict(sorted(ci.memo.items())))


# ------------------------------------------------------------------ C16.4 comparison family
class Tri:
    """abstract evaluation of the comparison family over the trichotomy of the (signed) operands"""

    def __init__(self, fns, case):
        self.fns = fns
        self.case = case  # "LT" | "EQ" | "GT"
        self.views = {}

    def call(self, name, args):
        fn = self.fns[name]
        env = {}
        ps = [i["pat"]["name"] for i in fn["sig"]["inputs"] if not i.get("self")]
        for p, a in zip(ps, args):
            env[p] = a
        return self.block(fn["body"], env)

    def block(self, b, env):
        env = dict(env)
        out = None
        for s in b["stmts"]:
            if s["k"] == "Local" and s["init"] is not None and s["pat"]["k"] == "PIdent":
                env[s["pat"]["name"]] = self.ev(s["init"], env)
            elif s["k"] == "ExprStmt" and not s["semi"]:
                out = self.ev(s["e"], env)
            elif s["k"] == "ExprStmt":
                self.ev(s["e"], env)
            else:
                raise ValueError("statement " + s["k"])
        return out

    def ev(self, e, env):
        e = strip(e)
        k = e["k"]
        if k == "Path":
            if e["path"] in env:
                return env[e["path"]]
            raise ValueError("path " + e["path"])
        if k == "Lit" and e["lit"] == "int":
            return int(e["value"])
        if k == "Block":
            return self.block(e, env)
        if k == "If":
            c = self.ev(e["cond"], env)
            if not isinstance(c, bool):
                raise ValueError("condition not decided: " + render(e["cond"]))
            return self.ev(e["then"] if c else e["else"], env)
        if k == "Call":
            f = render(e["func"])
            args = [self.ev(a, env) for a in e["args"]]
            if f == "BigInt::from":
                return args[0]
            if f in ("modulus", "comparable_element", "val") and isinstance(args[0], tuple):
                side, view = args[0]
                nv = {"modulus": "mod", "comparable_element": "signed", "val": "signed"}[f]
                if f == "val" and view != "mod":
                    raise ValueError("val of non-reduced operand")
                return (side, nv)
            if f in ("normalize",) and isinstance(args[0], int) and args[0] in (0, 1):
                return args[0]  # 0/1 are their own signed representatives for p > 2
            if f in ("comparable_element", "modulus") and isinstance(args[0], int):
                return args[0]
            if f in self.fns:
                return self.call(f, args)
            raise ValueError("call " + f)
        if k == "Binary":
            a, b = self.ev(e["l"], env), self.ev(e["r"], env)
            op = e["op"]
            if isinstance(a, tuple) and isinstance(b, tuple):
                if {a[0], b[0]} != {"L", "R"}:
                    raise ValueError("comparison of an operand with itself")
                if a[1] != b[1]:
                    raise ValueError("comparison mixes views %s / %s" % (a[1], b[1]))
                self.views.setdefault(op, set()).add(a[1])
                case = self.case if a[0] == "L" else {"LT": "GT", "GT": "LT", "EQ": "EQ"}[self.case]
                if a[1] == "raw":
                    raise ValueError("comparison on unreduced operands")
                return {"<": case == "LT", "<=": case in ("LT", "EQ"), ">": case == "GT", ">=": case in ("GT", "EQ"), "==": case == "EQ", "!=": case != "EQ"}[op]
            if isinstance(a, int) and isinstance(b, int) and not isinstance(a, bool) and not isinstance(b, bool):
                if op == "+":
                    return a + b
                if op == "*":
                    return a * b
                if op == "-":
                    return a - b
                if op == "%":
                    return a % b
                if op == "==":
                    return a == b
                if op == "!=":
                    return a != b
            raise ValueError("binary %s on %r %r" % (op, a, b))
        raise ValueError("expression " + k)


EXPECT = {
    "lesser": (1, 0, 0),
    "eq": (0, 1, 0),
    "not_eq": (1, 0, 1),
    "lesser_eq": (1, 1, 0),
    "greater": (0, 0, 1),
    "greater_eq": (0, 1, 1),
}


def rule_comparisons(ctx):
    R = "C16.4"
    ctx.rule(R, "the six comparison operations realise <, ==, !=, <=, >, >= of the trichotomy of their operands (abstract evaluation over LT/EQ/GT), order comparisons on the signed representatives and equality on reduced operands; not/bool_or/bool_and are the boolean functions on {0,1}")
    fns = module_fns()
    for name, want in EXPECT.items():
        if name not in fns:
            ctx.missing(R, name)
            continue
        got = []
        views = {}
        err = None
        for case in ("LT", "EQ", "GT"):
            t = Tri(fns, case)
            try:
                v = t.call(name, [("L", "raw"), ("R", "raw"), "field"])
                got.append(v)
                for op, vs in t.views.items():
                    views.setdefault(op, set()).update(vs)
            except (ValueError, KeyError, TypeError) as ex:
                err = str(ex)
                break
        if err:
            ctx.bad(R, name + "/truth-table", "cannot evaluate over the trichotomy (fail closed): " + err, site(MA, fns[name]))
            continue
        ctx.check(R, name + "/truth-table", tuple(got) == want, "(LT,EQ,GT) -> %s, expected %s" % (tuple(got), want), site(MA, fns[name]))
        order_views = set()
        for op in ("<", "<=", ">", ">="):
            order_views |= views.get(op, set())
        ctx.check(R, name + "/order-on-signed-representatives", order_views <= {"signed"}, "order comparisons on views %s" % sorted(order_views), site(MA, fns[name]))
    # boolean helpers on {0,1}
    for name, arity, f in (("not", 1, lambda a: 1 - a), ("bool_or", 2, lambda a, b: a | b), ("bool_and", 2, lambda a, b: a & b)):
        if name not in fns:
            ctx.missing(R, name)
            continue
        bad = []
        import itertools
        for args in itertools.product((0, 1), repeat=arity):
            try:
                v = Tri(fns, "EQ").call(name, list(args) + ["field"])
            except (ValueError, KeyError, TypeError) as ex:
                bad.append("%s: %s" % (args, ex))
                continue
            if v != f(*args):
                bad.append("%s -> %s" % (args, v))
        ctx.check(R, name + "/boolean-table", not bad, "; ".join(bad), site(MA, fns[name]))
    # the signed view: val() maps [p/2+1, p) to negatives
    v = fns.get("val")
    if v is None:
        ctx.missing(R, "val")
    else:
        from pathcond import split_cond

        ifs = [x for x in walk(v["body"]) if x["k"] == "If"]
        ok = False
        det = ""
        if len(ifs) == 1 and ifs[0]["else"] is not None:
            then = render(strip(ifs[0]["then"])).replace(" ", "")
            els = render(strip(ifs[0]["else"])).replace(" ", "")
            # the branch that returns elem - field is taken exactly when (field/2)+1 <= elem < field
            neg_branch = True if then == "(elem-field)" else (False if els == "(elem-field)" else None)
            other = els if neg_branch else then
            fs = split_cond(ifs[0]["cond"], neg_branch) if neg_branch is not None else []
            texts = sorted(("" if f[2] else "!") + render(f[1]).replace(" ", "").replace("&", "") for f in fs if f[0] == "if")
            det = "returns elem-field under %s, otherwise %s" % (texts, other)
            lower = ("(((field/BigInt::from(2))+1)<=elem)", "(((field/2)+1)<=elem)")
            ok = neg_branch is not None and other == "elem" and len(fs) == 2 and len(texts) == 2 and "(elem<field)" in texts and any(x in texts for x in lower)
        ctx.check(R, "val/signed-representative", ok, det, site(MA, v))
    ce = fns.get("comparable_element")
    if ce is not None:
        t = render(strip(ce["body"])).replace(" ", "").replace("&", "")
        ctx.check(R, "comparable_element/reduces-then-signs", t == "val(modulus(elem,field),field)", t, site(MA, ce))


def _lin(e):
    """expression over `field` as a*h + b with field = 2h + 1 (odd prime): returns (a, b) or None.
    `x / 2` is floor division (BigInt division of non-negative values)."""
    e = strip(e)
    k = e["k"]
    t = render(e).replace(" ", "")
    if k == "Path" and e["path"] == "field":
        return (2, 1)
    m = re.fullmatch(r"(?:BigInt::from\()?(-?\d+)\)?", t)
    if m:
        return (0, int(m.group(1)))
    if k == "Binary" and e["op"] in ("+", "-"):
        l, r = _lin(e["l"]), _lin(e["r"])
        if l is None or r is None:
            return None
        return (l[0] + r[0], l[1] + r[1]) if e["op"] == "+" else (l[0] - r[0], l[1] - r[1])
    if k == "Binary" and e["op"] == "/":
        l, r = _lin(e["l"]), _lin(e["r"])
        if l is None or r != (0, 2) or l[0] % 2 != 0:
            return None
        return (l[0] // 2, l[1] // 2)  # floor((a*h + b) / 2) for even a
    return None


def rule_shift_recursion(ctx, R="C16.6"):
    ctx.rule(R, "shift_l and shift_r call each other with `field - right` only when `right` is above a threshold, and the callee's own threshold then accepts `field - right`: with field = 2h+1 the two thresholds T (direct case iff right <= T) satisfy T_l + T_r >= 2h, so the mutual recursion has depth at most one")
    fns = module_fns()
    T = {}
    for name, other in (("shift_l", "shift_r"), ("shift_r", "shift_l")):
        fn = fns.get(name)
        if fn is None:
            ctx.missing(R, name)
            continue
        rec = [c for c in walk(fn["body"]) if c["k"] == "Call" and c["func"]["k"] == "Path" and last(c["func"]["path"]) == other]
        selfrec = [c for c in walk(fn["body"]) if c["k"] == "Call" and c["func"]["k"] == "Path" and last(c["func"]["path"]) == name]
        ctx.check(R, name + "/no-self-recursion", not selfrec, "%d self calls" % len(selfrec), site(MA, fn))
        if len(rec) != 1:
            ctx.missing(R, name + "/call-of-" + other, "expected one call, found %d" % len(rec))
            continue
        c = rec[0]
        args = [render(strip(a)).replace(" ", "") for a in c["args"]]
        ctx.check(R, name + "/recursive-argument", args == ["left", "(field-right)", "field"], "calls %s(%s)" % (other, ", ".join(args)), site(MA, c))
        conds = [f for f in (conditions_to(fn["body"], c) or [])]
        thr = None
        if len(conds) == 1 and conds[0][0] == "if" and strip(conds[0][1])["k"] == "Binary" and strip(conds[0][1])["op"] in ("<=", "<"):
            b = strip(conds[0][1])
            l, r = render(strip(b["l"])).replace(" ", ""), _lin(b["r"])
            pol = conds[0][2]
            # direct case iff  right <= T ; the recursive call is under the negation of that test
            if l == "right" and r is not None and not pol:
                thr = r if b["op"] == "<=" else (r[0], r[1] - 1)
            # `top < right` / `top <= right` taken positively:  right > top  /  right >= top
            l2, r2 = _lin(b["l"]), render(strip(b["r"])).replace(" ", "")
            if thr is None and r2 == "right" and l2 is not None and pol:
                thr = l2 if b["op"] == "<" else (l2[0], l2[1] - 1)
        if thr is None:
            ctx.missing(R, name + "/threshold", "the call of %s is not under a single threshold test on `right`: %s" % (other, [fact_str(f) for f in conds]))
            continue
        T[name] = thr
        # the case that shifts the other way has no error exit of its own: every `?` / `return Err` of the function lies
        # on the direct side of the threshold test (a count above p/2 never fits a machine word on the large primes;
        # converting it before the dispatch turns `a >> (p - k)` into an error instead of `a << k`)
        test = render(strip(conds[0][1])).replace(" ", "")
        early = []
        for x in walk(fn["body"]):
            if x["k"] not in ("Try", "Return") or any(y is c for y in walk(x)):
                continue
            if x["k"] == "Return" and x.get("e") is not None and not re.search(r"\bErr\b", render(x["e"])):
                continue
            cx = conditions_to(fn["body"], x) or []
            direct = any(f[0] == "if" and render(strip(f[1])).replace(" ", "") == test and f[2] != conds[0][2] for f in cx)
            if not direct:
                early.append("%s (line %s)" % (render(x)[:60], x.get("line")))
        ctx.check(R, name + "/errors-only-in-the-direct-case", not early, "error exits outside the direct case `%s`: %s" % (test, early), site(MA, fn))
        ctx.ok(R, name + "/threshold", "direct case iff right <= %d*h%+d  (field = 2h+1)" % thr, site(MA, c))
    if len(T) == 2:
        a = T["shift_l"][0] + T["shift_r"][0]
        b = T["shift_l"][1] + T["shift_r"][1]
        ctx.check(R, "shift_l+shift_r/terminates", a > 2 or (a == 2 and b >= 0), "T_l + T_r = %d*h%+d, needs >= 2h: otherwise some `right` makes the two functions call each other forever" % (a, b), site(MA, fns["shift_l"]))


def rule_integer_quotient(ctx, R="C16.9"):
    ctx.rule(R, "integer division and remainder act on the canonical representatives in [0, p) of their operands - not on the signed view the relational operators use: the quotient / remainder is taken of modulus(left, field) by modulus(right, field), left by right")
    fns = module_fns()

    def view(e, fn, at):
        """('canon' | 'signed' | 'raw' | None, parameter name) of an operand expression"""
        e = resolve(e, fn, at)
        while e["k"] in ("Ref", "Paren") or (e["k"] == "MethodCall" and e["method"] == "clone" and not e["args"]):
            e = resolve(e["e"] if e["k"] != "MethodCall" else e["recv"], fn, at)
        if e["k"] == "Path":
            return ("raw", e["path"])
        if e["k"] == "Call" and e["func"]["k"] == "Path" and len(e["args"]) == 2 and render(strip(resolve(e["args"][1], fn, at))).replace("&", "").strip() == "field":
            inner = view(e["args"][0], fn, at)
            name = last(e["func"]["path"])
            if name == "modulus" and inner[0] in ("raw", "canon"):
                return ("canon", inner[1])
            if name in ("comparable_element", "val"):
                return ("signed", inner[1])
        return (None, render(e)[:40])

    for name, what in (("idiv", "quotient"), ("mod_op", "remainder")):
        fn = fns.get(name)
        if fn is None:
            ctx.missing(R, name)
            continue
        pv = [i["pat"].get("name") for i in fn["sig"]["inputs"] if not i.get("self")]
        sites = []
        for n in walk(fn["body"]):
            if what == "quotient" and n["k"] == "Binary" and n["op"] == "/":
                sites.append((n, n["l"], n["r"]))
            if what == "remainder" and ((n["k"] == "Binary" and n["op"] == "%") or (n["k"] == "Call" and n["func"]["k"] == "Path" and last(n["func"]["path"]) == "modulus" and len(n["args"]) == 2 and render(strip(resolve(n["args"][1], fn, n))).replace("&", "").strip() != "field")):
                sites.append((n, n["l"], n["r"]) if n["k"] == "Binary" else (n, n["args"][0], n["args"][1]))
        ok = len(sites) == 1
        det = "%d %s operation(s) found" % (len(sites), what)
        if ok:
            n, a, b = sites[0]
            va, vb = view(a, fn, n), view(b, fn, n)
            ok = len(pv) >= 2 and va == ("canon", pv[0]) and vb == ("canon", pv[1])
            det = "the %s is taken of the %s view of `%s` by the %s view of `%s`" % (what, va[0], va[1], vb[0], vb[1])
        ctx.check(R, "%s/on-canonical-representatives-in-order" % name, ok, det, site(MA, fn))


def eval_complement(ctx, R, fn):
    """complement_256 by evaluation on bit vectors of 0, 1, 255, 256, 257 and 300 bits (the bit representation of the
    operand is handed in as a vector): the number spelled must have exactly 256 bits, bit i being the complement of
    the operand's bit i (0 beyond its length), and the result is that number reduced by the field.  Returns True when
    decided."""
    import passeval
    from finfun import S, Unsupported
    from passeval import O, Panic, Sink

    try:
        w = passeval.PassWorld([MA], MA)
    except Exception:  # noqa: BLE001
        return False
    w.lenient_opaque = True
    bad = []
    n = 0
    try:
        for length in (0, 1, 255, 256, 257, 300):
            bits = [(i * 7 + length) % 3 == 0 and 1 or 0 for i in range(length)]
            vec = Sink()
            vec.items = list(bits)
            sign, field, cp = O("sign"), O("field"), O("number-spelled-by-the-bits")
            spelled = []

            def bigint(name, args, spelled=spelled, cp=cp):
                if name == "from_radix_le" and len(args) == 3:
                    b_ = args[1]
                    spelled.append((args[0], list(b_.items) if isinstance(b_, Sink) else (list(b_[1]) if isinstance(b_, tuple) and b_ and b_[0] == "L" else None), args[2]))
                    return S("Some", cp)
                if name == "from" and len(args) == 1:
                    return args[0]
                return ("K", "BigInt::" + name, tuple(args))

            w.opaque = (("BigInt::", bigint), ("u8::", lambda name, args: (1 if args[0] else 0) if name == "from" and len(args) == 1 and isinstance(args[0], bool) else ("K", "u8::" + name, tuple(args))))
            w.stubs = {"bit_representation": lambda a, sign=sign, vec=vec: ("T", (sign, vec)), "modulus": lambda a: ("K", "modulus", tuple(a))}
            res = w.call_fn(fn, [O("elem"), field])
            n += 1
            want = [1 - (bits[i] if i < len(bits) else 0) for i in range(256)]
            if len(spelled) != 1 or spelled[0][0] is not sign or spelled[0][2] != 2:
                bad.append("%d-bit operand: the number is built %d time(s) / not from the operand's sign in base 2" % (length, len(spelled)))
            elif spelled[0][1] != want:
                got = spelled[0][1]
                bad.append("%d-bit operand: %s" % (length, "the vector has %d bits, not 256" % len(got) if got is None or len(got) != 256 else "bit %d is not the complement of the operand's bit" % [i for i in range(256) if got[i] != want[i]][0]))
            if not (isinstance(res, tuple) and res[0] == "K" and res[1] == "modulus" and res[2][0] is cp and res[2][1] is field):
                bad.append("%d-bit operand: the result is %r, not the number reduced by the field" % (length, res))
    except Unsupported as u:
        w.stubs = {}
        ctx.note("complement_256 is outside the evaluator's subset (%s): shape obligations apply" % u)
        return False
    except Panic as p_:
        bad.append("panics (%s)" % p_)
    w.stubs = {}
    ctx.floor(R, "operand widths evaluated (complement)", n, 6)
    ctx.check(R, "complement_256/over-exactly-256-bits", not bad, "; ".join(bad[:3]) or "for operands of 0 .. 300 bits: 256 bits, each the complement of the operand's (0 beyond its length), spelled in base 2 with the operand's sign and reduced by the field", site(MA, fn))
    return True


def rule_complement(ctx, R="C16.10"):
    ctx.rule(R, "the bitwise complement is taken over exactly 256 bits of the operand's binary representation: the bit vector is cut to 256 and padded to 256, every bit is flipped, and the number they spell is reduced modulo the field")
    fns = module_fns()
    fn = fns.get("complement_256")
    if fn is None:
        return ctx.missing(R, "complement_256")
    if eval_complement(ctx, R, fn):
        return
    t = render(fn["body"]).replace(" ", "")
    le = let_env(fn["body"])
    # the vector of bits: bound (in a tuple) from bit_representation(elem)
    vec = None
    for n in walk(fn["body"]):
        if n["k"] == "Local" and n.get("init") is not None and n["pat"]["k"] == "PTuple" and len(n["pat"]["elems"]) == 2 and render(strip(n["init"])).replace(" ", "").startswith("bit_representation("):
            e1 = n["pat"]["elems"][1]
            if e1["k"] == "PIdent":
                vec = e1["name"]
    if vec is None:
        return ctx.missing(R, "complement_256/bit-vector", "cannot find the bit vector taken from bit_representation(..)")
    v = re.escape(vec)
    cut = re.search(r"while\(?%s\.len\(\)>256\)?\{%s\.pop\(\);?\}" % (v, v), t) is not None or ("%s.truncate(256)" % vec) in t
    pad = re.search(r"for\w+in%s\.len\(\)\.\.256\{%s\.push\(0\);?\}" % (v, v), t) is not None or ("%s.resize(256,0)" % vec) in t or re.search(r"while\(?%s\.len\(\)<256\)?\{%s\.push\(0\);?\}" % (v, v), t) is not None
    flip = re.search(r"\*(\w+)=u8::from\(\(?\*\1==0\)?\)", t) is not None or re.search(r"\*(\w+)=1-\*\1", t) is not None or re.search(r"\*(\w+)\^=1", t) is not None
    flip_all = flip and (re.search(r"for\w+in&mut%s\{" % v, t) is not None or ("%s.iter_mut()" % vec) in t)
    from astlib import result_expr

    rx = result_expr(fn)
    res_t = render(strip(rx)).replace(" ", "") if rx is not None else ""
    spelled = re.search(r"BigInt::from_radix_le\(\w+,&?%s,2\)" % v, t) is not None
    reduced = res_t.startswith("modulus(") and res_t.endswith(",field)")
    ctx.check(R, "complement_256/over-exactly-256-bits", cut and pad, "cut to 256 bits: %s, padded to 256 bits: %s" % (cut, pad), site(MA, fn))
    ctx.check(R, "complement_256/every-bit-flipped", flip_all, "each of the 256 bits is replaced by its complement: %s" % flip_all, site(MA, fn))
    ctx.check(R, "complement_256/number-spelled-by-the-bits-reduced", spelled and reduced, "result `%s`; built from the flipped bits: %s" % (res_t[:60], spelled), site(MA, fn))


def run(ctx):
    rule_shift_recursion(ctx)
    rule_divisors(ctx)
    rule_exponents(ctx)
    rule_canonical(ctx)
    rule_comparisons(ctx)
    rule_integer_quotient(ctx)
    rule_complement(ctx)
    import c06
    import c11

    ctx.include("C16.8", "literals enter the evaluator reduced modulo the prime (shared with C06.5): an operand outside [0, p) makes the operations that act on the representative (shifts, bit operations, comparisons) compute with the wrong integer", c06.rule_literals)
    ctx.include("C16.7", "prerequisite shared with C11.2: the modulus the operations are given is the curve's prime (the three literals equal the reference primes; constants are built from the selected curve)", c11.rule_primes)
    ctx.include("C16.5", "the constant evaluator reaches these operations with (left, right, prime) in order, takes fallible results only on Ok and has no shortcut that bypasses them (shared with C06.1)", c06.rule_operator_table)
