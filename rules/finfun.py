"""A4: finite functions written as code.

A small evaluator for the closed subset of Rust that the repository's
lookup-table-like functions use (match on tuples of enum values, if/else on
equalities and order comparisons, max/min under the type's own Ord, calls to
sibling methods).  It is used to read *complete* tables (4, 9, 16 .. rows)
out of the syntax tree; any construct outside the subset raises Unsupported
and the calling rule fails closed."""
from astlib import all_items, is_node, last, render, walk
import facts


class Unsupported(Exception):
    pass


class ReturnEx(Exception):
    def __init__(self, v):
        self.v = v


def E(ty, variant):
    return ("E", ty, variant)


def S(ty, *fields):
    return ("S", ty, tuple(fields))


class Iter:
    """a by-reference iterator over a list value: `next()` consumes, loops / folds take what is left"""

    def __init__(self, items):
        self.items = list(items)
        self.pos = 0

    def rest(self):
        r = self.items[self.pos:]
        self.pos = len(self.items)
        return r


class BreakEx(Exception):
    """`break` / `break value` (the value of the `loop` expression)"""

    def __init__(self, v=None):
        Exception.__init__(self)
        self.v = v


class ContinueEx(Exception):
    pass


NONE = ("E", "Option", "None")
ORD = {n: ("E", "Ordering", n) for n in ("Less", "Equal", "Greater")}


class World:
    """Enums, tuple structs and methods of one or more files."""

    def __init__(self, files):
        self.enums = {}  # name -> [variants]
        self.enum_derives = {}
        self.structs = {}  # name -> [field names]
        self.methods = {}  # (type, name) -> (fn node, file)
        self.consts = {}
        for f in files:
            items = facts.ast().get(f)
            if items is None:
                continue
            for _p, it in all_items(items):
                if it["k"] == "Enum":
                    if it["name"] in self.enums:
                        # two enums of one name in the files of this world (an AST kind and its IR counterpart):
                        # values are told apart by their variant, the variant lists are joined
                        self.enums[it["name"]] = self.enums[it["name"]] + [v["name"] for v in it["variants"] if v["name"] not in self.enums[it["name"]]]
                    else:
                        self.enums[it["name"]] = [v["name"] for v in it["variants"]]
                    self.enum_derives[it["name"]] = " ".join(it.get("attrs", []))
                elif it["k"] == "StructDef":
                    self.structs[it["name"]] = [x["name"] for x in it["fields"]]
                elif it["k"] == "Impl":
                    ty = it["self_ty"].split("<")[0].strip()
                    for sub in it["items"]:
                        if sub["k"] == "Fn":
                            key = (ty, sub["name"])
                            # trait impls with a type parameter: From<X> for Y -> (Y, "from:X")
                            if it["trait"] and it["trait"].startswith("From"):
                                key = (ty, "from")
                            self.methods[key] = (sub, f)
                elif it["k"] == "Const":
                    self.consts[it["name"]] = it["expr"]
        self.depth = 0

    # ---------------------------------------------------------------- values
    def variant(self, path, uses):
        """Resolve a path to an enum value, given glob-imported enums `uses`."""
        segs = path.split("::")
        if len(segs) >= 2 and segs[-2] in self.enums and segs[-1] in self.enums[segs[-2]]:
            return E(segs[-2], segs[-1])
        if len(segs) >= 2 and segs[-2] == "Ordering" and segs[-1] in ORD:
            return ORD[segs[-1]]
        if len(segs) == 1:
            for en in uses:
                if en in self.enums and segs[0] in self.enums[en]:
                    return E(en, segs[0])
                if en == "Ordering" and segs[0] in ORD:
                    return ORD[segs[0]]
            if segs[0] == "None":
                return NONE
            if segs[0] in ORD and "Ordering" in uses:
                return ORD[segs[0]]
        return None

    def type_of(self, v):
        if isinstance(v, tuple) and v and v[0] in ("E", "S"):
            return v[1]
        return None

    # ------------------------------------------------------------- ordering
    def compare(self, a, b):
        """-1/0/1 under the type's own Ord (impl or derive)."""
        ta, tb = self.type_of(a), self.type_of(b)
        if isinstance(a, bool) or isinstance(a, int):
            return (a > b) - (a < b)
        if isinstance(a, tuple) and a[0] == "T":
            for x, y in zip(a[1], b[1]):
                c = self.compare(x, y)
                if c:
                    return c
            return 0
        if ta is None or ta != tb:
            raise Unsupported("compare %r %r" % (a, b))
        if (ta, "cmp") in self.methods:
            r = self.call_method(a, "cmp", [b])
            return {"Less": -1, "Equal": 0, "Greater": 1}[r[2]]
        if (ta, "partial_cmp") in self.methods:
            r = self.call_method(a, "partial_cmp", [b])
            if r == NONE:
                raise Unsupported("partial order")
            return {"Less": -1, "Equal": 0, "Greater": 1}[r[2][0][2]]
        if ta in self.enums and "PartialOrd" in self.enum_derives.get(ta, ""):
            ia, ib = self.enums[ta].index(a[2]), self.enums[ta].index(b[2])
            return (ia > ib) - (ia < ib)
        raise Unsupported("no order for " + str(ta))

    # ---------------------------------------------------------------- calls
    def call_method(self, recv, name, args):
        ty = self.type_of(recv)
        key = (ty, name)
        if key not in self.methods:
            raise Unsupported("method %s::%s" % (ty, name))
        fn, _f = self.methods[key]
        return self.call_fn(fn, [recv] + list(args))

    def call_fn(self, fn, args):
        if not hasattr(self, "_owner"):
            self._owner = {id(v[0]): k[0] for k, v in self.methods.items()}
            self._ty_stack = []
        self._ty_stack.append(self._owner.get(id(fn)))
        if not hasattr(self, "_ret_stack"):
            self._ret_stack = []
        self._ret_stack.append(str((fn.get("sig") or {}).get("output") or ""))
        try:
            return self._call_fn(fn, args)
        finally:
            self._ty_stack.pop()
            self._ret_stack.pop()

    def _call_fn(self, fn, args):
        self.depth += 1
        if self.depth > 40:
            raise Unsupported("recursion")
        try:
            env = {}
            i = 0
            cells = getattr(self, "_pending_cells", None)
            self._pending_cells = None
            for inp in fn["sig"]["inputs"]:
                if inp.get("self"):
                    env["self"] = args[i]
                else:
                    self.bind(inp["pat"], args[i], env, [])
                    # a `&mut` argument that names a field of a node in the caller: `*param = v` writes through
                    if cells and i < len(cells) and cells[i] is not None and inp["pat"]["k"] == "PIdent":
                        env["&" + inp["pat"]["name"]] = cells[i]
                i += 1
            uses = []
            try:
                return self.eval(fn["body"], env, uses)
            except ReturnEx as r:
                return r.v
        finally:
            self.depth -= 1

    # ------------------------------------------------------------- patterns
    def bind(self, p, v, env, uses):
        """Match value against pattern; returns True/False, binding into env."""
        k = p["k"]
        if k == "PWild":
            return True
        if k == "PIdent":
            ev = self.variant(p["name"], uses)
            if ev is not None and p["sub"] is None and p["name"][:1].isupper():
                return ev == v
            if p["sub"] is not None and not self.bind(p["sub"], v, env, uses):
                return False
            env[p["name"]] = v
            return True
        if k == "PRef":
            return self.bind(p["pat"], v, env, uses)
        if k == "PPath":
            ev = self.variant(p["path"], uses)
            if ev is None:
                raise Unsupported("pattern path " + p["path"])
            return ev == v
        if k == "PTuple":
            if not (isinstance(v, tuple) and v[0] == "T" and len(v[1]) == len(p["elems"])):
                raise Unsupported("tuple pattern against %r" % (v,))
            # a tuple pattern fails as soon as one element definitely fails, whatever the others are
            pending = None
            for q, x in zip(p["elems"], v[1]):
                try:
                    if not self.bind(q, x, env, uses):
                        return False
                except Unsupported as ex:
                    pending = ex
            if pending is not None:
                raise pending
            return True
        if k == "POr":
            for c in p["cases"]:
                e2 = dict(env)
                if self.bind(c, v, e2, uses):
                    env.update(e2)
                    return True
            return False
        if k == "PLit":
            return self.lit(p["lit"]) == v
        if k == "PTupleStruct":
            name = last(p["path"])
            if name == "Some":
                if v == NONE:
                    return False
                if isinstance(v, tuple) and v[0] == "S" and v[1] == "Some":
                    return self.bind(p["elems"][0], v[2][0], env, uses)
                raise Unsupported("Some pattern against %r" % (v,))
            if isinstance(v, tuple) and v[0] == "S" and v[1] == name:
                return all(self.bind(q, x, env, uses) for q, x in zip(p["elems"], v[2]))
            if isinstance(v, tuple) and v[0] == "S":
                return False
            raise Unsupported("tuple struct pattern %s" % name)
        raise Unsupported("pattern " + k)

    def lit(self, l):
        if l["lit"] == "int":
            return int(l["value"])
        return l["value"]

    # ---------------------------------------------------------- expressions
    def truth(self, v):
        if isinstance(v, bool):
            return v
        raise Unsupported("non-boolean condition %r" % (v,))

    def _block(self, e, env, uses, declared):
        val = ("T", ())
        for s in e["stmts"]:
            if s["k"] == "ItemStmt":
                it = s["item"]
                if it["k"] == "Use":
                    for u in it["uses"]:
                        if u["name"] == "*":
                            uses.append(last(u["path"]))
                        elif last(u["path"]) in ("Ordering",):
                            pass
                continue
            if s["k"] == "Local":
                if s["init"] is None:
                    raise Unsupported("let without init")
                init_ = s["init"]
                if s.get("ty") and init_.get("k") == "MethodCall" and init_.get("method") == "collect" and not init_.get("turbofish"):
                    init_ = dict(init_, turbofish=s["ty"])  # `let x: HashSet<_> = it.collect()`: the annotation picks the collection
                elif s.get("ty") and init_.get("k") == "Try" and init_["e"].get("k") == "MethodCall" and init_["e"].get("method") == "collect" and not init_["e"].get("turbofish"):
                    init_ = dict(init_, e=dict(init_["e"], turbofish="Result<%s>" % s["ty"]))
                v = self.eval(init_, env, uses)
                for b_ in walk(s["pat"]):
                    if b_["k"] == "PIdent":
                        declared.add(b_["name"])
                if not self.bind(s["pat"], v, env, uses):
                    if s["else"] is None:
                        raise Unsupported("refutable let")
                    self.eval(s["else"], env, uses)
                continue
            if s["k"] == "ExprStmt":
                v = self.eval(s["e"], env, uses)
                val = ("T", ()) if s["semi"] else v
        return val

    def eval(self, e, env, uses):
        k = e["k"]
        if k == "Block":
            uses = list(uses)
            outer = env
            env = dict(env)
            declared = set()
            try:
                return self._block(e, env, uses, declared)
            finally:
                # assignments to variables of enclosing scopes persist; names declared here do not leak
                for k_ in list(outer.keys()):
                    if k_ not in declared and k_ in env:
                        outer[k_] = env[k_]
        if k == "Lit":
            return self.lit(e)
        if k == "Path":
            p = e["path"]
            if p in env:
                return env[p]
            ev = self.variant(p, uses + list(self.file_uses))
            if ev is not None:
                return ev
            if p in self.consts:
                return self.eval(self.consts[p], {}, uses)
            raise Unsupported("path " + p)
        if k == "Ref":
            return self.eval(e["e"], env, uses)
        if k == "Unary":
            v = self.eval(e["e"], env, uses)
            if e["op"] == "*":
                return v
            if e["op"] == "!":
                return not self.truth(v)
            raise Unsupported("unary " + e["op"])
        if k == "Tuple":
            return ("T", tuple(self.eval(x, env, uses) for x in e["elems"]))
        if k == "Binary":
            op = e["op"]
            if op == "&&":
                return self.truth(self.eval(e["l"], env, uses)) and self.truth(self.eval(e["r"], env, uses))
            if op == "||":
                return self.truth(self.eval(e["l"], env, uses)) or self.truth(self.eval(e["r"], env, uses))
            a, b = self.eval(e["l"], env, uses), self.eval(e["r"], env, uses)
            if op == "==":
                return a == b
            if op == "!=":
                return a != b
            if op in ("<", "<=", ">", ">="):
                c = self.compare(a, b)
                return {"<": c < 0, "<=": c <= 0, ">": c > 0, ">=": c >= 0}[op]
            raise Unsupported("binary " + op)
        if k == "If":
            c = e["cond"]
            if c["k"] == "Let":
                v = self.eval(c["e"], env, uses)
                env2 = dict(env)
                if self.bind(c["pat"], v, env2, uses):
                    bound = {b_["name"] for b_ in walk(c["pat"]) if b_["k"] == "PIdent"}
                    try:
                        return self.eval(e["then"], env2, uses)
                    finally:
                        for k_ in env:
                            if k_ not in bound and k_ in env2:
                                env[k_] = env2[k_]
                if e["else"] is None:
                    return ("T", ())
                return self.eval(e["else"], env, uses)
            if self.truth(self.eval(c, env, uses)):
                return self.eval(e["then"], env, uses)
            if e["else"] is None:
                return ("T", ())
            return self.eval(e["else"], env, uses)
        if k == "Match":
            v = self.eval(e["scrut"], env, uses)
            for a in e["arms"]:
                env2 = dict(env)
                if self.bind(a["pat"], v, env2, uses):
                    if a["guard"] is not None and not self.truth(self.eval(a["guard"], env2, uses)):
                        continue
                    bound = {b_["name"] for b_ in walk(a["pat"]) if b_["k"] == "PIdent"}
                    try:
                        return self.eval(a["body"], env2, uses)
                    finally:
                        for k_ in env:
                            if k_ not in bound and k_ in env2:
                                env[k_] = env2[k_]
            raise Unsupported("no arm matches %r" % (v,))
        if k == "Assign":
            l = e["l"]
            while l["k"] in ("Paren",) or (l["k"] == "Unary" and l["op"] == "*"):
                l = l["e"]
            if l["k"] != "Path" or l["path"] not in env:
                raise Unsupported("assignment to " + render(e["l"])[:40])
            env[l["path"]] = self.eval(e["r"], env, uses)
            return ("T", ())
        if k == "For":
            it = self.eval(e["iter"], env, uses)
            items = it.rest() if isinstance(it, Iter) else (list(it[1]) if isinstance(it, tuple) and it and it[0] == "L" else None)
            if items is None:
                raise Unsupported("for over %r" % (it,))
            for x in items:
                env2 = dict(env)
                if not self.bind(e["pat"], x, env2, uses):
                    raise Unsupported("refutable loop pattern")
                bound = {b_["name"] for b_ in walk(e["pat"]) if b_["k"] == "PIdent"}
                try:
                    self.eval(e["body"], env2, uses)
                except ContinueEx:
                    pass
                except BreakEx:
                    for k_ in env:
                        if k_ not in bound and k_ in env2:
                            env[k_] = env2[k_]
                    break
                for k_ in env:
                    if k_ not in bound and k_ in env2:
                        env[k_] = env2[k_]
            return ("T", ())
        if k == "Break":
            raise BreakEx(self.eval(e["e"], env, uses) if e.get("e") is not None else None)
        if k == "Continue":
            raise ContinueEx()
        if k == "Array":
            return ("L", tuple(self.eval(x, env, uses) for x in e["elems"]))
        if k == "Return":
            raise ReturnEx(self.eval(e["e"], env, uses) if e["e"] else ("T", ()))
        if k == "Macro":
            name = last(e["name"])
            if name == "matches" and e.get("parsed"):
                v = self.eval(e["args"][0], env, uses)
                env2 = dict(env)
                if self.bind(e["pat"], v, env2, uses):
                    if e.get("guard") is not None:
                        return self.truth(self.eval(e["guard"], env2, uses))
                    return True
                return False
            if name == "vec" and e.get("parsed"):
                return ("L", tuple(self.eval(x, env, uses) for x in e["args"]))
            if name in ("panic", "unreachable"):
                raise Unsupported("panic reached")
            if name in ("trace", "debug"):
                return ("T", ())
            raise Unsupported("macro " + name)
        if k == "Call":
            f = e["func"]
            if f["k"] != "Path":
                raise Unsupported("indirect call")
            p = f["path"]
            args = [self.eval(a, env, uses) for a in e["args"]]
            lp = last(p)
            if lp in ("max", "min") and len(args) == 2 and p in ("max", "min", "std::cmp::max", "std::cmp::min", "cmp::max", "cmp::min"):
                c = self.compare(args[0], args[1])
                if lp == "max":
                    return args[1] if c <= 0 else args[0]
                return args[0] if c <= 0 else args[1]
            if lp == "Some" and len(args) == 1:
                return S("Some", args[0])
            segs = p.split("::")
            if len(segs) >= 2:
                ty, m = segs[-2], segs[-1]
                if ty == "Self":
                    ty = self.self_type(env)
                if (ty, m) in self.methods:
                    return self.call_fn(self.methods[(ty, m)][0], args)
            if lp in self.structs and len(self.structs[lp]) == len(args):
                return S(lp, *args)
            if len(segs) >= 2 and segs[-2] in self.enums and lp in self.enums[segs[-2]] and p not in env:
                return S(lp, *args)  # a tuple variant of a known enum
            raise Unsupported("call " + p)
        if k == "MethodCall":
            recv = self.eval(e["recv"], env, uses)
            args = [self.eval(a, env, uses) for a in e["args"]]
            m = e["method"]
            if m in ("clone", "to_owned", "borrow", "as_ref") and not args:
                return recv
            if isinstance(recv, tuple) and recv and recv[0] == "O":
                if len(recv) > 2 and m in dict(recv[2]):
                    return dict(recv[2])[m]
                return ("O", "%s.%s" % (recv[1], m))
            self._turbofish = str(e.get("turbofish") or "")
            lm = self.list_method(recv, m, args, uses)
            if lm is not NotImplemented:
                return lm
            opt = self.option_method(recv, m, args, uses)
            if opt is not NotImplemented:
                return opt
            ty = self.type_of(recv)
            if (ty, m) in self.methods:
                return self.call_fn(self.methods[(ty, m)][0], [recv] + args)
            if m in ("max", "min") and len(args) == 1:
                c = self.compare(recv, args[0])
                if m == "max":
                    return args[0] if c <= 0 else recv
                return recv if c <= 0 else args[0]
            if m == "cmp" and len(args) == 1:
                c = self.compare(recv, args[0])
                return ORD[{-1: "Less", 0: "Equal", 1: "Greater"}[c]]
            if m == "partial_cmp" and len(args) == 1:
                c = self.compare(recv, args[0])
                return S("Some", ORD[{-1: "Less", 0: "Equal", 1: "Greater"}[c]])
            if m == "into" and not args:
                # `x.into()`: the one `From<type of x>` impl of the files read, if there is exactly one
                cands = []
                for (ty2, mn), (f2, _ff) in self.methods.items():
                    if mn == "from" and ty2 != ty:
                        ins_ = [i_ for i_ in f2["sig"]["inputs"] if not i_.get("self")]
                        if len(ins_) == 1 and str(ins_[0].get("ty", "")).replace(" ", "").replace("&", "") in (ty, "Self::" + str(ty)):
                            cands.append(f2)
                if len(cands) == 1:
                    return self.call_fn(cands[0], [recv])
                raise Unsupported("into")
            raise Unsupported("method %s on %s" % (m, ty))
        if k == "Closure":
            return ("C", e, dict(env))
        if k == "Paren":
            return self.eval(e["e"], env, uses)
        if k == "Try":
            v = self.eval(e["e"], env, uses)
            if v == NONE:
                raise ReturnEx(NONE)
            if isinstance(v, tuple) and v[0] == "S" and v[1] == "Some":
                return v[2][0]
            raise Unsupported("`?` on %r" % (v,))
        if k == "Field":
            b = self.eval(e["base"], env, uses)
            if isinstance(b, tuple) and b[0] == "S":
                if e["member"].isdigit():
                    return b[2][int(e["member"])]
                names = self.structs.get(b[1])
                if names and e["member"] in names:
                    return b[2][names.index(e["member"])]
            if isinstance(b, tuple) and b[0] == "T" and e["member"].isdigit():
                return b[1][int(e["member"])]
            raise Unsupported("field " + e["member"])
        if k == "Struct":
            name = last(e["path"])
            if name == "Self":
                name = self.self_type(env)
            names = self.structs.get(name)
            if names is None:
                raise Unsupported("struct " + name)
            vals = {f["name"]: self.eval(f["e"], env, uses) for f in e["fields"]}
            return S(name, *[vals[n] for n in names])
        raise Unsupported("expression " + k + ": " + render(e)[:80])

    def apply(self, f, args, uses):
        if isinstance(f, tuple) and f[0] == "C":
            cl, cenv = f[1], dict(f[2])
            if len(cl["inputs"]) != len(args):
                raise Unsupported("closure arity")
            for p, a in zip(cl["inputs"], args):
                while p["k"] in ("PType",):
                    p = p["pat"]
                if not self.bind(p, a, cenv, uses):
                    raise Unsupported("refutable closure parameter")
            try:
                return self.eval(cl["body"], cenv, uses)
            except ReturnEx as r:
                return r.v
        if isinstance(f, tuple) and f[0] == "PY":
            return f[1](*args)
        if isinstance(f, tuple) and f[0] == "F" and hasattr(self, "_free_call"):
            return self._free_call(f[1], list(args))  # a free function of the file used as a function value (`.map(helper)`)
        raise Unsupported("call of a non-closure")

    def list_method(self, recv, m, args, uses):
        """lists ("L", items) and by-reference iterators over them"""
        is_list = isinstance(recv, tuple) and recv and recv[0] == "L"
        if not (is_list or isinstance(recv, Iter)):
            return NotImplemented
        if m in ("iter", "into_iter", "iter_mut") and not args:
            return Iter(recv[1]) if is_list else recv
        if m in ("cloned", "copied", "by_ref", "peekable") and not args:
            return recv
        if m == "len" and not args and is_list:
            return len(recv[1])
        if m == "is_empty" and not args and is_list:
            return len(recv[1]) == 0
        it = recv if isinstance(recv, Iter) else Iter(recv[1])
        if m == "next" and not args:
            if it.pos < len(it.items):
                it.pos += 1
                return S("Some", it.items[it.pos - 1])
            return NONE
        if m == "fold" and len(args) == 2:
            acc = args[0]
            for x in it.rest():
                acc = self.apply(args[1], [acc, x], uses)
            return acc
        if m == "reduce" and len(args) == 1:
            r = it.rest()
            if not r:
                return NONE
            acc = r[0]
            for x in r[1:]:
                acc = self.apply(args[0], [acc, x], uses)
            return S("Some", acc)
        if m == "map" and len(args) == 1:
            return Iter([self.apply(args[0], [x], uses) for x in it.rest()])
        if m == "filter" and len(args) == 1:
            return Iter([x for x in it.rest() if self.truth(self.apply(args[0], [x], uses))])
        if m in ("all", "any") and len(args) == 1:
            vals = [self.truth(self.apply(args[0], [x], uses)) for x in it.rest()]
            return all(vals) if m == "all" else any(vals)
        if m == "collect" and not args:
            r = it.rest()
            # collect::<Option<Vec<_>>>() over options: None if any is None
            if "Option" in getattr(self, "_turbofish", "") or (r and all(x == NONE or (isinstance(x, tuple) and x[0] == "S" and x[1] == "Some") for x in r)):
                if any(x == NONE for x in r):
                    return NONE
                return S("Some", ("L", tuple(x[2][0] for x in r)))
            return ("L", tuple(r))
        if m == "last" and not args:
            r = it.rest()
            return S("Some", r[-1]) if r else NONE
        return NotImplemented

    def option_method(self, recv, m, args, uses):
        """Option combinators on evaluated values (closures are values)"""
        is_some = isinstance(recv, tuple) and recv[0] == "S" and recv[1] == "Some"
        is_none = recv == NONE
        if not (is_some or is_none):
            return NotImplemented
        inner = recv[2][0] if is_some else None
        if m == "zip" and len(args) == 1:
            o = args[0]
            if is_some and isinstance(o, tuple) and o[0] == "S" and o[1] == "Some":
                return S("Some", ("T", (inner, o[2][0])))
            if is_none or o == NONE:
                return NONE
            return NotImplemented
        if m == "map" and len(args) == 1:
            return S("Some", self.apply(args[0], [inner], uses)) if is_some else NONE
        if m == "and_then" and len(args) == 1:
            return self.apply(args[0], [inner], uses) if is_some else NONE
        if m == "filter" and len(args) == 1:
            return recv if is_some and self.truth(self.apply(args[0], [inner], uses)) else NONE
        if m == "unwrap_or" and len(args) == 1:
            return inner if is_some else args[0]
        if m == "unwrap_or_else" and len(args) == 1:
            return inner if is_some else self.apply(args[0], [], uses)
        if m == "map_or" and len(args) == 2:
            return self.apply(args[1], [inner], uses) if is_some else args[0]
        if m == "or_else" and len(args) == 1:
            return recv if is_some else self.apply(args[0], [], uses)
        if m == "xor" and len(args) == 1:
            o = args[0]
            o_some = isinstance(o, tuple) and o[0] == "S" and o[1] == "Some"
            return recv if is_some and not o_some else (o if o_some and not is_some else NONE)
        if m in ("is_some_and", "is_none_or") and len(args) == 1:
            if is_some:
                return self.truth(self.apply(args[0], [inner], uses))
            return m == "is_none_or"
        if m == "map_or_else" and len(args) == 2:
            return self.apply(args[1], [inner], uses) if is_some else self.apply(args[0], [], uses)
        if m == "or" and len(args) == 1:
            return recv if is_some else args[0]
        if m == "ok_or" and len(args) == 1:
            return S("Ok", inner) if is_some else S("Err", args[0])
        if m == "ok_or_else" and len(args) == 1:
            return S("Ok", inner) if is_some else S("Err", self.apply(args[0], [], uses))
        if m == "and" and len(args) == 1:
            return args[0] if is_some else NONE
        if m == "flatten" and not args:
            return inner if is_some else NONE
        if m == "unwrap_or_default" and not args and is_some:
            return inner
        if m == "is_some" and not args:
            return is_some
        if m == "is_none" and not args:
            return is_none
        if m in ("copied", "cloned", "as_ref", "as_deref") and not args:
            return recv
        if m in ("unwrap", "expect"):
            if is_some:
                return inner
            raise Unsupported("unwrap of None reached")
        return NotImplemented

    file_uses = ()

    def self_type(self, env):
        t = self.type_of(env.get("self"))
        if t is None:
            for x in reversed(getattr(self, "_ty_stack", [])):
                if x:
                    return x  # associated function: the type of the impl it is defined in
            raise Unsupported("Self without receiver")
        return t
