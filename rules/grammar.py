"""E3: reader for the LALRPOP grammar (the subset parser/src/lang.lalrpop uses).

parse() -> {nonterminal: {"params": [...], "type": str|None, "macro": str|None,
                           "alts": [{"symbols": [Sym], "action": str|None, "line": n}]}}
Sym = {"name": binding|None, "text": symbol text, "kind": "str"|"regex"|"nt"|"loc"|"group", "value": ..}
Action bodies are parsed to syntax trees on demand through astq (`<>` is replaced by `__all`)."""
import re

import facts

GRAMMAR = "parser/src/lang.lalrpop"


class GrammarError(Exception):
    pass


def tokenize(src):
    """yield (kind, text, line) with kinds: str, regex, ident, punct, loc"""
    i, n, line = 0, len(src), 1
    out = []
    while i < n:
        c = src[i]
        if c == "\n":
            line += 1
            i += 1
            continue
        if c.isspace():
            i += 1
            continue
        if src.startswith("//", i):
            j = src.find("\n", i)
            i = n if j < 0 else j
            continue
        if src.startswith("/*", i):
            j = src.find("*/", i)
            seg = src[i:j + 2]
            line += seg.count("\n")
            i = j + 2
            continue
        m = re.match(r'r(#*)"', src[i:])
        if m:
            hashes = m.group(1)
            end = '"' + hashes
            j = src.find(end, i + len(m.group(0)))
            if j < 0:
                raise GrammarError("unterminated raw string at line %d" % line)
            out.append(("regex", src[i + len(m.group(0)):j], line))
            seg = src[i:j + len(end)]
            line += seg.count("\n")
            i = j + len(end)
            continue
        if c == '"':
            j = i + 1
            buf = []
            while j < n and src[j] != '"':
                if src[j] == "\\":
                    buf.append(src[j:j + 2])
                    j += 2
                else:
                    buf.append(src[j])
                    j += 1
            out.append(("str", "".join(buf), line))
            i = j + 1
            continue
        if c == "'":
            # char literal or lifetime inside actions
            m = re.match(r"'(\\.|[^'\\])'", src[i:])
            if m:
                out.append(("punct", m.group(0), line))
                i += len(m.group(0))
                continue
            out.append(("punct", "'", line))
            i += 1
            continue
        if src.startswith("@L", i) or src.startswith("@R", i):
            out.append(("loc", src[i:i + 2], line))
            i += 2
            continue
        m = re.match(r"[A-Za-z_][A-Za-z0-9_]*", src[i:])
        if m:
            out.append(("ident", m.group(0), line))
            i += len(m.group(0))
            continue
        m = re.match(r"\d[\d_]*", src[i:])
        if m:
            out.append(("ident", m.group(0), line))
            i += len(m.group(0))
            continue
        if src.startswith("=>", i):
            out.append(("punct", "=>", line))
            i += 2
            continue
        if src.startswith("<>", i):
            out.append(("ident", "__all", line))
            i += 2
            continue
        if src.startswith("::", i) or src.startswith("..", i) or src.startswith("->", i) or src.startswith("&&", i) or src.startswith("||", i) or src.startswith("==", i) or src.startswith("!=", i):
            out.append(("punct", src[i:i + 2], line))
            i += 2
            continue
        out.append(("punct", c, line))
        i += 1
    return out


OPEN = {"(": ")", "[": "]", "{": "}"}
CLOSE = {")", "]", "}"}


def tok_text(t):
    k, v, _ = t
    if k == "str":
        return '"%s"' % v
    if k == "regex":
        return 'r#"%s"#' % v
    return v


def join(tokens):
    out = []
    for t in tokens:
        s = tok_text(t)
        if out and (re.match(r"[A-Za-z0-9_\"]", s[0]) and re.match(r"[A-Za-z0-9_\"]", out[-1][-1])):
            out.append(" ")
        out.append(s)
    return "".join(out)


def parse_symbols(tokens):
    """tokens of the symbol part of one alternative -> list of Sym"""
    syms = []
    i = 0

    def parse_one(i, in_angle=False):
        k, v, line = tokens[i]
        if k == "str":
            return {"name": None, "kind": "str", "value": bytes(v, "utf-8").decode("unicode_escape") if "\\" in v else v, "text": '"%s"' % v}, i + 1
        if k == "regex":
            return {"name": None, "kind": "regex", "value": v, "text": "r\"%s\"" % v}, i + 1
        if k == "loc":
            return {"name": None, "kind": "loc", "value": v, "text": v}, i + 1
        if k == "ident":
            text = v
            j = i + 1
            if j < len(tokens) and tokens[j][1] == "<" and not in_angle_binding(tokens, j):
                depth = 0
                while j < len(tokens):
                    if tokens[j][1] == "<":
                        depth += 1
                    elif tokens[j][1] == ">":
                        depth -= 1
                        if depth == 0:
                            j += 1
                            break
                    j += 1
                text = join(tokens[i:j])
            return {"name": None, "kind": "nt", "value": v, "text": text}, j
        if v == "(":
            depth, j = 0, i
            while j < len(tokens):
                if tokens[j][1] == "(":
                    depth += 1
                elif tokens[j][1] == ")":
                    depth -= 1
                    if depth == 0:
                        break
                j += 1
            inner = parse_symbols(tokens[i + 1:j])
            return {"name": None, "kind": "group", "value": inner, "text": join(tokens[i:j + 1])}, j + 1
        if v == "<":
            # <name:Sym>  |  <Sym>  | <mut name:Sym>
            j = i + 1
            name = None
            if tokens[j][1] == "mut":
                j += 1
            if tokens[j][0] == "ident" and j + 1 < len(tokens) and tokens[j + 1][1] == ":":
                name = tokens[j][1]
                j += 2
            sym, j = parse_one(j, True)
            j = suffix(sym, j)
            if tokens[j][1] != ">":
                raise GrammarError("expected `>` at line %d, got %r" % (tokens[j][2], tokens[j][1]))
            sym = dict(sym)
            sym["name"] = name if name else "<>"
            return sym, j + 1
        raise GrammarError("unexpected token %r in symbols at line %d" % (v, line))

    def in_angle_binding(tokens, j):
        return False

    def suffix(sym, j):
        while j < len(tokens) and tokens[j][1] in ("?", "*", "+"):
            sym["text"] += tokens[j][1]
            sym["rep"] = sym.get("rep", "") + tokens[j][1]
            j += 1
        return j

    while i < len(tokens):
        sym, i = parse_one(i)
        i = suffix(sym, i)
        syms.append(sym)
    return syms


_cache = {}


def parse():
    key = facts.tree_hash()
    if key in _cache:
        return _cache[key]
    src = facts.src(GRAMMAR)
    toks = tokenize(src)
    # skip the preamble up to `grammar;`
    i = 0
    while i < len(toks) and not (toks[i][1] == "grammar" and toks[i + 1][1] == ";"):
        i += 1
    if i >= len(toks):
        raise GrammarError("no `grammar;`")
    i += 2
    nts = {}
    while i < len(toks):
        if toks[i][1] == "pub":
            i += 1
        if toks[i][0] != "ident":
            raise GrammarError("expected nonterminal name at line %d, got %r" % (toks[i][2], toks[i][1]))
        name = toks[i][1]
        line0 = toks[i][2]
        i += 1
        params = []
        if toks[i][1] == "<":
            j = i + 1
            while toks[j][1] != ">":
                if toks[j][0] == "ident":
                    params.append(toks[j][1])
                j += 1
            i = j + 1
        ty = None
        if toks[i][1] == ":":
            j = i + 1
            depth = 0
            while not (toks[j][1] == "=" and depth == 0):
                if toks[j][1] in ("<", "(", "["):
                    depth += 1
                elif toks[j][1] in (">", ")", "]"):
                    depth -= 1
                j += 1
            ty = join(toks[i + 1:j])
            i = j
        if toks[i][1] != "=":
            raise GrammarError("expected `=` after %s at line %d" % (name, toks[i][2]))
        i += 1
        if toks[i][1] != "{":
            # macro instantiation:  X = Macro<A, B>;
            j = i
            while toks[j][1] != ";":
                j += 1
            nts[name] = {"params": params, "type": ty, "macro": join(toks[i:j]), "alts": [], "line": line0}
            i = j + 1
            continue
        # body
        depth, j = 0, i
        while j < len(toks):
            if toks[j][1] in OPEN and toks[j][0] == "punct":
                depth += 1
            elif toks[j][1] in CLOSE and toks[j][0] == "punct":
                depth -= 1
                if depth == 0:
                    break
            j += 1
        body = toks[i + 1:j]
        i = j + 1
        if i < len(toks) and toks[i][1] == ";":
            i += 1
        alts = []
        k = 0
        while k < len(body):
            # symbols until `=>` or top-level comma
            start = k
            depth = 0
            angle = 0
            while k < len(body):
                t = body[k]
                if t[0] == "punct":
                    if t[1] in OPEN:
                        depth += 1
                    elif t[1] in CLOSE:
                        depth -= 1
                    elif t[1] == "=>" and depth == 0:
                        break
                    elif t[1] == "," and depth == 0 and angle == 0:
                        break
                    elif t[1] == "<":
                        angle += 1
                    elif t[1] == ">":
                        angle = max(0, angle - 1)
                k += 1
            sym_toks = body[start:k]
            action = None
            aline = body[start][2] if start < len(body) else line0
            if k < len(body) and body[k][1] == "=>":
                k += 1
                astart = k
                depth = 0
                while k < len(body):
                    t = body[k]
                    if t[0] == "punct":
                        if t[1] in OPEN:
                            depth += 1
                        elif t[1] in CLOSE:
                            depth -= 1
                        elif t[1] == "," and depth == 0:
                            break
                    k += 1
                action = join(body[astart:k])
            if k < len(body) and body[k][1] == ",":
                k += 1
            if sym_toks:
                alts.append({"symbols": parse_symbols(sym_toks), "action": action, "line": aline})
        nts[name] = {"params": params, "type": ty, "macro": None, "alts": alts, "line": line0}
    _cache[key] = nts
    return nts


_action_cache = {}


def action_asts(alts):
    """parse the action bodies of the given alternatives with astq; returns list aligned with alts (None when no action)"""
    todo = [a["action"] for a in alts if a["action"] is not None and a["action"] not in _action_cache]
    if todo:
        res = facts.parse_exprs(todo)
        for s, r in zip(todo, res):
            _action_cache[s] = r
    return [(_action_cache[a["action"]] if a["action"] is not None else None) for a in alts]


def all_alts(nts=None):
    nts = nts or parse()
    for name, nt in nts.items():
        for idx, a in enumerate(nt["alts"]):
            yield name, idx, a


def terminal_table(ntname, nts=None):
    """for a nonterminal whose alternatives are `"tok" => Path`: {tok: path}"""
    nts = nts or parse()
    nt = nts.get(ntname)
    if nt is None:
        return None
    tab = {}
    for a in nt["alts"]:
        if len(a["symbols"]) == 1 and a["symbols"][0]["kind"] == "str" and a["action"]:
            tab[a["symbols"][0]["value"]] = a["action"].replace(" ", "")
        else:
            return None
    return tab


def action_ast(a):
    """parsed and normalised (rules/normalize.py) action body of an alternative, or None"""
    if a["action"] is None:
        return None
    key = ("norm", a["action"])
    if key not in _action_cache:
        import copy

        import normalize

        r = copy.deepcopy(action_asts([a])[0])
        if r is not None and r.get("k") != "ParseError":
            wrap = {"body": r, "sig": {"inputs": []}}
            normalize.n1(r)
            normalize.n3(r)
            normalize.n2(r)
        _action_cache[key] = r
    return _action_cache[key]


def action_leaves(a):
    """(leaves, effects): every result expression of the action (lets substituted, catch-all aliases resolved) and
    the statements executed for effect"""
    import terms

    r = action_ast(a)
    if r is None or r.get("k") == "ParseError":
        return None, None
    eff = []
    lv = terms.leaves(r, {}, eff)
    return lv, eff


def leaf_texts(a):
    import terms

    lv, eff = action_leaves(a)
    if lv is None:
        return None
    return sorted({terms.norm(x).replace(" ", "") for x in lv})
