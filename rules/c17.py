"""C17 Findings are a function of the sources: deterministic, order-independent."""
import re

import facts
import mirlib
from astlib import calls, find_fn, fns_in_file, last, method_calls, render, site, strip, walk
from pathcond import conditions_to, fact_str, facts_str, let_env
import c19

TITLE = "Determinism"
LEVEL_TEXT = (
    "definition tables are filled in a fixed (sorted) file order and never overwrite; no report text can print an SSA version"
    " (call-graph reachability over the type-checked program from every report-producing function to the version printer, log"
    " macros excluded, with a positive control); no report is selected first-wins inside a loop; the per-definition CFG cache is"
    " taken and put back around each analysis; a failing file does not stop the others; the merging loops have no early exit; desugaring resolves against the table it was given; no process-wide state.; the library constructor evaluated on file maps with gaps in three orders; no element is chosen from a hash-ordered iteration outside two reviewed sites (type-resolved ledger); phi placement does not depend on the order of a written-variable set. parse_files is evaluated on every order of its model projects (shared with C02.14)."
)
NOT_DECIDED = "order-independence of every analysis result (that each pass computes the same set whatever the iteration order of its internal hash maps)."
TRUSTED = ["rustc MIR and trait resolution (engines/mirfacts)", "syn parser", "formatting edges: Argument::new_debug/new_display::<T> stands for a call of <T as Debug/Display>::fmt"]
ENGINE = "mirfacts+astq"
TECHNIQUE = "static analysis: call-graph reachability over rustc MIR (who-may-print rule) + syntax-tree rules"

TL = "program_structure/src/program_library/template_library.rs"
PA = "program_structure/src/program_library/program_archive.rs"
RUN = "program_analysis/src/analysis_runner.rs"


def eval_template_library(ctx, R):
    """`TemplateLibrary::new` by evaluation on file maps whose ids have gaps (a file that failed to parse has an id but no
    contents) and that are handed over in different orders: every definition is stored with the id of the file it was
    parsed from, the first definition of a name in file-id order is the one kept - whatever order the map is walked in -
    and each further one is reported once, at its own location in its own file.  Returns True when decided."""
    import passeval
    from finfun import Unsupported
    from passeval import MMap, O, Panic, Sink, V

    ASTF = "program_structure/src/abstract_syntax_tree/ast.rs"
    try:
        w = passeval.PassWorld([ASTF, TL], TL)
    except Exception:  # noqa: BLE001
        return False
    w.lenient_opaque = True
    key = ("TemplateLibrary", "new")
    if key not in w.methods or "TemplateLibrary" not in w.structs:
        return False
    fn = w.methods[key][0]
    st = site(TL, find_fn(TL, "new", "TemplateLibrary"))

    def tdef(kind, name, f):
        m = ("O", "meta:%s@%d" % (name, f), (("file_location", O("location:%s@%d" % (name, f))), ("get_file_id", f)))
        common = dict(meta=m, name=name, args=("L", ()), arg_location=O("arg-location"), body=O("body:%s@%d" % (name, f)))
        if kind == "T":
            return V("Definition", "Template", parallel=False, is_custom_gate=False, **common)
        return V("Definition", "Function", **common)

    def vec(xs):
        s_ = Sink()
        s_.items = list(xs)
        return s_

    # file id -> definitions (kind, name)
    projects = [
        {0: [("T", "A"), ("F", "f"), ("T", "B")], 2: [("T", "B"), ("F", "g")]},
        {1: [("F", "h")], 3: [("T", "C"), ("F", "h"), ("T", "C")], 5: [("T", "h"), ("T", "D")]},
    ]
    problems = {}
    n = 0
    try:
        for proj in projects:
            ids = sorted(proj)
            for order in (ids, ids[::-1], ids[1:] + ids[:1]):
                reports = []

                def report(_name, _args):
                    rec = {"primary": []}
                    reports.append(rec)
                    return ("O", "report", (("*", ("PY", lambda m_, a_, rec=rec: (rec["primary"].append(tuple(a_[:2])) if m_ == "add_primary" else None, ("T", ()))[1])),))

                w.opaque = (("Report::", report),)
                contents = MMap([[f, vec([tdef(k_, nm, f) for k_, nm in proj[f]])] for f in order])
                res = w.call_fn(fn, [contents, O("file_library")])
                n += 1
                if not (isinstance(res, tuple) and len(res) > 2 and res[0] == "S" and res[1] == "TemplateLibrary"):
                    raise Unsupported("TemplateLibrary::new returns %r" % (res,))
                fields = dict(zip(w.structs["TemplateLibrary"], res[2]))
                stored = {}
                for fld in ("templates", "functions"):
                    mp = fields.get(fld)
                    if not isinstance(mp, MMap):
                        raise Unsupported("field %s is %r" % (fld, mp))
                    for nm, data in mp.pairs:
                        if not (isinstance(data, tuple) and data[0] == "K" and len(data[2]) >= 3):
                            raise Unsupported("a definition stored as %r" % (data,))
                        stored[nm] = (fld, data[2][1], data[2][2])
                want = {}
                dups = []
                for f in ids:
                    for k_, nm in proj[f]:
                        if nm in want:
                            dups.append((nm, f))
                        else:
                            want[nm] = ("templates" if k_ == "T" else "functions", f, O("body:%s@%d" % (nm, f)))
                tag = "files %s handed over in the order %s" % (ids, list(order))
                for nm, (fld, f, body) in want.items():
                    got = stored.get(nm)
                    if got is None or got[0] != fld:
                        problems.setdefault("kept", "%s: `%s` is not in the %s table" % (tag, nm, fld))
                    elif got[2] != body:
                        problems.setdefault("kept", "%s: the definition of `%s` that is kept is %s, the first one in file order is in file %d" % (tag, nm, got[2][1] if isinstance(got[2], tuple) else got[2], f))
                    elif got[1] != f:
                        problems.setdefault("file", "%s: `%s` was parsed from file %d and is stored with file id %r" % (tag, nm, f, got[1]))
                if set(stored) - set(want):
                    problems.setdefault("kept", "%s: unexpected entries %s" % (tag, sorted(set(stored) - set(want))))
                got_d = sorted((p_[0][0][1] if isinstance(p_[0][0], tuple) else p_[0][0], p_[0][1]) for p_ in (r_["primary"] for r_ in reports) if p_)
                want_d = sorted(("location:%s@%d" % (nm, f), f) for nm, f in dups)
                if len(reports) != len(dups) or got_d != want_d:
                    problems.setdefault("duplicates", "%s: %d duplicate report(s) at %s, expected %s" % (tag, len(reports), got_d, want_d))
                rep_f = fields.get("reports")
                if not isinstance(rep_f, Sink) or len(rep_f.items) != len(reports):
                    problems.setdefault("duplicates", "%s: %d report(s) built, %s returned" % (tag, len(reports), len(rep_f.items) if isinstance(rep_f, Sink) else rep_f))
    except (Unsupported, Panic) as u:
        ctx.note("TemplateLibrary::new is outside the evaluator's subset (%s): shape obligations apply" % u)
        w.opaque = ()
        return False
    w.opaque = ()
    ctx.check(R, "TemplateLibrary::new/evaluated/first-definition-in-file-order-is-kept", "kept" not in problems, problems.get("kept") or "%d file maps: the definition kept for a name is the first one in file-id order, in whatever order the map is handed over" % n, st)
    ctx.check(R, "TemplateLibrary::new/evaluated/definition-keeps-the-id-of-its-file", "file" not in problems, problems.get("file") or "every definition is stored with the id of the file it was parsed from (ids with gaps)", st)
    ctx.check(R, "TemplateLibrary::new/evaluated/each-duplicate-reported-at-its-own-location", "duplicates" not in problems, problems.get("duplicates") or "one report per further definition of a name, at that definition's location and file", st)
    return True


def rule_tables(ctx):
    R = "C17.1"
    ctx.rule(R, "name-keyed definition tables are filled by visiting the files in sorted order, and an existing entry is never overwritten (so neither the surviving definition nor the reported duplicate depends on hash order)")
    fn = find_fn(TL, "new", "TemplateLibrary")
    if fn is None:
        ctx.missing(R, "TemplateLibrary::new")
    elif eval_template_library(ctx, R):
        pass
    else:
        t = render(fn["body"]).replace(" ", "")
        loops = [l for l in walk(fn["body"]) if l["k"] == "For" and render(strip(l["iter"])) == "library_contents"]
        import sgrep
        pvt = sgrep.params(fn)
        okso = False
        # the outer loop iterates a vector that was collected from the map parameter and sorted by file id
        for lp_ in [l for l in walk(fn["body"]) if l["k"] == "For"]:
            it = render(strip(lp_["iter"]))
            coll = [n_ for n_, b_ in sgrep.find(fn["body"], "let mut __v = __m.into_iter().collect()", None, {"__v": it})]
            srt = sgrep.has(fn["body"], "__v.sort_by_key(|(__id, _)| *__id)", None, {"__v": it}) or sgrep.has(fn["body"], "__v.sort()", None, {"__v": it}) or sgrep.has(fn["body"], "__v.sort_unstable_by_key(|(__id, _)| *__id)", None, {"__v": it}) or sgrep.has(fn["body"], "__v.sort_by(|__a, __b| __a.0.cmp(&__b.0))", None, {"__v": it})
            if coll and srt:
                okso = True
        direct_ = [l for l in walk(fn["body"]) if l["k"] == "For" and pvt and render(strip(l["iter"])) == pvt[0] and not sgrep.find(fn["body"], "let mut __v = __m.into_iter().collect()", None, {"__v": pvt[0]})]
        ctx.check(R, "TemplateLibrary::new/files-in-sorted-order", okso and not direct_, "the hash map of file contents must be collected and sorted by file id before it is visited", site(TL, fn))
        ins = list(method_calls(fn["body"], "insert"))
        for i in ins:
            cs = [fact_str(c).replace(" ", "") for c in (conditions_to(fn["body"], i) or [])]
            ok = any("contains_key(name)" in c and c.startswith("!") for c in cs)
            ctx.check(R, "TemplateLibrary::new/%s/first-definition-wins" % render(strip(i["recv"])), ok, "insert under %s" % cs, site(TL, i))
    fn = find_fn(PA, "new", "ProgramArchive")
    if fn is None:
        ctx.missing(R, "ProgramArchive::new")
    else:
        t = render(fn["body"]).replace(" ", "")
        import sgrep
        ok = False
        for lp_ in [l for l in walk(fn["body"]) if l["k"] == "For"]:
            it = render(strip(lp_["iter"]))
            if sgrep.find(fn["body"], "let mut __v = __m.keys().collect()", None, {"__v": it}) and (sgrep.has(fn["body"], "__v.sort()", None, {"__v": it}) or sgrep.has(fn["body"], "__v.sort_unstable()", None, {"__v": it})):
                ok = True
        direct = [l for l in walk(fn["body"]) if l["k"] == "For" and render(strip(l["iter"])).replace(" ", "") in ("program_contents", "&program_contents", "program_contents.iter()")]
        ctx.check(R, "ProgramArchive::new/files-in-sorted-order", ok and not direct, "the duplicate that gets reported must not depend on the iteration order of the file map", site(PA, fn))


def report_sources():
    """functions (ids) from which report text is produced: everything in the analysis crate, plus every
    function that calls a Report constructor / label method"""
    idx = mirlib.index()
    out = set()
    for fid, fn in idx.items():
        if fn.get("gen"):
            continue
        if fn["crate"] == "circomspect_program_analysis":
            out.add(fid)
            continue
        for _i, t in mirlib.calls_of(fn):
            p = t.get("pretty") or ""
            if re.search(r"report::Report::(error|warning|info|add_primary|add_secondary|add_note)$", p):
                out.add(fid)
                break
    return out


def rule_versions(ctx):
    R = "C17.2"
    ctx.rule(R, "SSA version numbers depend on hash order (dominator-tree children); the only printer of versions, <VariableName as Debug>::fmt, is not reachable in the call graph from any report-producing function except through log macros")
    idx = mirlib.index()
    sinks = [f["id"] for f in idx.values() if re.match(r"<.*VariableName as (std|core)::fmt::Debug>::fmt$", f["pretty"])]
    if len(sinks) != 1:
        return ctx.missing(R, "<VariableName as Debug>::fmt", "found %d" % len(sinks))
    sink = sinks[0]
    src = report_sources()
    ctx.floor(R, "report-producing functions", len(src), 150)
    hits = []
    for s in sorted(src):
        seen = mirlib.reach([s])
        if sink in seen:
            hits.append((s, mirlib.path_to(seen, sink)))
    direct = {}
    for s, p in hits:
        if len(p) >= 2:
            direct.setdefault(p[-2], p)
    for d, p in sorted(direct.items()):
        names = [idx[x]["pretty"] if x in idx else x for x in p]
        fn = idx.get(d)
        ctx.bad(R, "version-printed-by/%s" % (fn["pretty"] if fn else d), "%d report-producing function(s) reach the version printer through this function; e.g. call path: %s" % (sum(1 for _s, q in hits if len(q) >= 2 and q[-2] == d), " -> ".join(names)), (fn["file"], fn["line"]) if fn else None)
    if not hits:
        ctx.ok(R, "version-printer-unreachable", "%d report-producing functions examined, none reaches %s outside log macros" % (len(src), idx[sink]["pretty"]))
    # positive control: with log edges the printer IS reachable (the rule can see formatting edges)
    ctl = 0
    for s in sorted(src):
        if sink in mirlib.reach([s], include_log=True):
            ctl += 1
            if ctl >= 3:
                break
    ctx.check(R, "positive-control/log-macros-do-reach-the-printer", ctl >= 1, "with log-macro edges included, %d of the sources reach the printer (expected >= 1: trace!(\"{name:?}\") exists)" % ctl)
    # Display of VariableName prints the bare name only
    f = None
    for q, fn in fns_in_file("program_structure/src/intermediate_representation/ir.rs"):
        if fn["name"] == "fmt" and "Display for VariableName" in q:
            f = fn
    if f is not None:
        t = render(f["body"]).replace(" ", "")
        ctx.check(R, "Display for VariableName/no-version", "version" not in t and "suffix" not in t, t[:120])


# C17.14: selections from a hash-ordered iteration (outside `for` loops), reviewed.  Keyed by (module of the enclosing function,
# iterator method), program-wide count per key - moving a site within its module changes nothing.
HASH_SELECTION_LEDGER = {
    ("intermediate_representation::expression_impl", "next"): (1, "phi propagation: `values.iter().next()` of a set whose length was tested to be 1 (C06.3) - one element, no choice"),
    ("static_single_assignment::dominator_tree", "next"): (1, "compute_immediate_dominators: the candidate set has been reduced to the immediate dominator, which is unique; the element taken does not depend on the order"),
}
_SELECT_RE = re.compile(r"iterator::Iterator::(find|find_map|next|position|rposition|last|nth|min_by_key|max_by_key|min_by|max_by|take|skip|step_by|take_while|skip_while|zip|enumerate|reduce)$|DoubleEndedIterator::(next_back|rfind|nth_back)$")


def rule_hash_selection(ctx, R="C17.14"):
    ctx.rule(R, "no element is *chosen* from a hash-ordered collection: every call of an order-sensitive iterator method (next outside a `for`, find, find_map, position, last, nth, min/max_by(_key), take, skip, zip, enumerate, reduce ..) whose receiver iterates a HashMap / HashSet - directly or through adaptors - is a reviewed ledger entry (the collection holds one element there); what such a call returns otherwise differs from process to process")
    idx = mirlib.index()
    import collections

    cnt = collections.Counter()
    where = {}
    n_hash_iters = 0
    for fid, fn in idx.items():
        if fn.get("gen") or fn["file"].startswith("program_structure_tests"):
            continue
        for _i, t in mirlib.calls_of(fn):
            g = t.get("gargs") or []
            if not g or not re.search(r"hash_map::|hash_set::|hash::map::|hash::set::", g[0]):
                continue
            d = t.get("decl") or ""
            if d.endswith("Iterator::next"):
                n_hash_iters += 1
            m = _SELECT_RE.search(d)
            if not m or t.get("exp"):
                continue  # (the `next` of a `for` loop is an expansion: visiting everything is not choosing)
            meth = m.group(1) or m.group(2)
            if "::<impl " in fn["pretty"]:
                mod = fn["pretty"].split("::<impl ", 1)[0]
            else:
                mod = fn["pretty"].rsplit("::", 1)[0] if "::" in fn["pretty"] else fn["pretty"]
                mod = mod.rsplit("::", 1)[0] if re.search(r"::[A-Z]\w*$", mod) else mod  # Type::method -> module
            k = (mod, meth)
            cnt[k] += 1
            where.setdefault(k, []).append("%s (%s:%s) on %s" % (fn["pretty"][-60:], fn["file"], t["line"], g[0][:70]))
    ctx.floor(R, "iterations over hash collections seen in the type-checked program", n_hash_iters, 15)
    ctx.table("selections from hash-ordered iterators", ["%dx %s / %s" % (v, k[0], k[1]) for k, v in sorted(cnt.items())])
    for k, v in sorted(cnt.items()):
        ent = HASH_SELECTION_LEDGER.get(k)
        ok = ent is not None and v <= ent[0]
        ctx.check(R, "hash-selection/%s/%s" % k, ok, ("%d site(s), reviewed %d: %s" % (v, ent[0], ent[1])) if ok else "an element is picked from a hash-ordered iteration without a reviewed reason (found %d, reviewed %d): %s" % (v, ent[0] if ent else 0, where[k][-2:]))
    ctx.floor(R, "reviewed selection sites present", sum(1 for k in HASH_SELECTION_LEDGER if k in cnt), 2)


def rule_first_wins(ctx):
    R = "C17.4"
    ctx.rule(R, "no report is selected first-wins: the condition of a report push never contains a set insertion (which keeps whichever element the hash order delivers first)")
    n = 0
    for f in sorted(facts.ast()):
        if not f.startswith("program_analysis/src/"):
            continue
        for q, fn in fns_in_file(f):
            for p in method_calls(fn["body"], "push"):
                if render(strip(p["recv"])) != "reports":
                    continue
                n += 1
                cs = conditions_to(fn["body"], p) or []
                bad = [fact_str(c) for c in cs if c[0] in ("if", "iflet") and re.search(r"\.insert\(", fact_str(c))]
                ctx.check(R, "%s::%s/push[%s]" % (f.rsplit("/", 1)[-1][:-3], fn["name"], render(p["args"][0])[:30].replace(" ", "")), not bad, "report selected first-wins by %s: which element is reported depends on iteration order" % bad, site(f, p))
    ctx.floor(R, "report pushes in analysis passes", n, 15)


def rule_every_file_merged(ctx, R="C17.10"):
    ctx.rule(R, "every file is merged whatever came before it: the loops over the files' definitions in the archive / library constructors, and over the parsed files in parse_files, have no early exit (a `break` or `return` at the first file with a duplicate makes the errors of the remaining files depend on the file order)")
    import a10
    import sgrep

    n = 0
    for f, name, qual in (("program_structure/src/program_library/program_archive.rs", "new", "ProgramArchive"), ("program_structure/src/program_library/template_library.rs", "new", "TemplateLibrary"),
                          ("program_structure/src/program_library/program_merger.rs", "add_definitions", "Merger")):
        fn = find_fn(f, name, qual)
        if fn is None:
            ctx.missing(R, "%s::%s" % (qual, name))
            continue
        pv = sgrep.params(fn)
        tys = [i["ty"].replace(" ", "") for i in fn["sig"]["inputs"] if not i.get("self")]
        total, cuts = 0, []
        for p_, t_ in zip(pv, tys):
            if "Contents" in t_ or "Vec<Definition>" in t_ or "HashMap<" in t_:
                nl, cut = a10.loops_cut_short(fn["body"], p_)
                total += nl
                cuts += cut
        n += total
        ctx.check(R, "%s::%s/every-file-and-definition-visited" % (qual, name), total >= 1 and not cuts, "; ".join(cuts) or "%d loop(s) over the definitions, none with an early exit" % total, site(f, fn))
    ctx.floor(R, "definition-merging loops", n, 3)


def rule_cache(ctx):
    R = "C17.3"
    ctx.rule(R, "the per-definition CFG cache is keyed by the definition name; a CFG taken for an analysis is put back (if at all) under the same key and only on success")
    import c03run

    if c03run.rule_cache(ctx, R):
        # decided by evaluating the runner: after the analysis the cache holds each lifted definition's own graph under
        # its own name; the shape obligations below are the fallback
        return
    for kind in ("template", "function"):
        fn = find_fn(RUN, "analyze_" + kind)
        if fn is None:
            ctx.missing(R, "analyze_" + kind)
            continue
        take = list(method_calls(fn["body"], "take_" + kind))
        rep = list(method_calls(fn["body"], "replace_" + kind))
        ok = len(take) == 1 and len(rep) <= 1
        ctx.check(R, "analyze_%s/cfg-taken-once" % kind, ok, "take x%d replace x%d" % (len(take), len(rep)), site(RUN, fn))
        # not putting the CFG back is harmless now that reports are drained after generation (a later reference
        # regenerates the CFG; its reports stay in the cache of an already analysed definition)
        if ok and rep:
            conds_ = [c for c in (conditions_to(fn["body"], rep[0]) or []) if c[0] != "loop"]
            cs = [fact_str(c).replace(" ", "") for c in conds_]
            lets_ = {n_["pat"]["name"]: n_["init"] for n_ in walk(fn["body"]) if n_["k"] == "Local" and n_["pat"]["k"] == "PIdent" and n_["init"] is not None}
            okv = None
            if len(conds_) == 1 and conds_[0][0] == "iflet" and conds_[0][3]:
                m_ = re.fullmatch(r"Ok\((\w+)\)", render(conds_[0][1]).replace(" ", ""))
                sc_ = strip(conds_[0][2])
                if sc_["k"] == "Path" and sc_["path"] in lets_:
                    sc_ = strip(lets_[sc_["path"]])
                if m_ and render(sc_).replace(" ", "") == render(take[0]).replace(" ", ""):
                    okv = m_.group(1)
            ctx.check(R, "analyze_%s/replace-unconditional-on-success" % kind, okv is not None, "replace under %s" % cs, site(RUN, rep[0]))
            key_ = render(strip(take[0]["args"][0]))
            ctx.check(R, "analyze_%s/same-key" % kind, okv is not None and render(strip(rep[0]["args"][0])) == key_ and render(strip(rep[0]["args"][1])) == okv, "take(%s) replace(%s)" % (render(take[0]["args"]), render(rep[0]["args"])), site(RUN, fn))
        import sgrep as _sg

        for nm, wants in (("take_" + kind, ["self.%s_cfgs.remove(__n).unwrap()" % kind, "self.%s_cfgs.remove(__n).expect(__m)" % kind]), ("replace_" + kind, ["self.%s_cfgs.insert(__n.to_string(), __c).is_some()" % kind, "self.%s_cfgs.insert(__n.to_owned(), __c).is_some()" % kind, "self.%s_cfgs.insert(__n.into(), __c).is_some()" % kind])):
            f2 = find_fn(RUN, nm)
            if f2 is not None:
                t = render(f2["body"]).replace(" ", "")
                pv_ = _sg.params(f2)
                roles = {"__n": pv_[0]} if pv_ else {}
                if len(pv_) > 1:
                    roles["__c"] = pv_[1]
                ctx.check(R, "%s/keyed-by-name" % nm, bool(pv_) and any(_sg.has(f2["body"], w, _sg.lets(f2["body"]), dict(roles)) for w in wants), t[:160], site(RUN, f2))


def run(ctx):
    rule_tables(ctx)
    rule_versions(ctx)
    rule_cache(ctx)
    rule_first_wins(ctx)
    rule_every_file_merged(ctx)
    rule_hash_selection(ctx)
    import c03

    import c14 as _c14

    ctx.include("C17.12", "the arguments of a phi do not depend on the order in which the incoming edges are visited: every edge contributes its argument, the unassigned one included (shared with C14.3)", _c14.rule_phis_and_locals, only=["ensure_phi_argument/"])
    ctx.include("C17.13", "each definition is analysed and its cached reports displayed once, whatever the order of the name maps; a writer's decision about a report depends on that report alone (shared with C03.1/C03.2)", c03.rule_drain, lambda c: c03.rule_exit_status(c, "C03.2"), only=["one-analysis-per-name", "lifted-at-most-once", "::filter/", "AnalysisRunner/"])
    ctx.include("C17.6", "no finding is dropped by a de-duplication whose outcome depends on the order in which definitions, passes or files were processed: the runner and the writers never narrow a report collection (shared with C03.1)", c03.rule_drain, only=["no-narrowing", "appends-everything"])
    ctx.include("C17.15", "which phi statements exist does not depend on the order in which the written variables of a block come out of their hash set: a frontier block is re-queued whenever *any* variable got a new phi there (shared with C14.2)", _c14.rule_phi_insertion)
    import c18

    ctx.include("C17.11", "whether a template is desugared does not depend on which templates the hash-ordered loop visited before it: anonymous components are resolved against the table handed to the desugaring, every template goes through both stages (shared with C18.2)", c18.rule_elimination, only=["remove_syntactic_sugar/templates/"])
    import procstate

    procstate.rule(ctx, "C17.9", "the findings for a definition do not depend on which definitions, files or curves the process looked at before it: no process-wide state in hand-written non-test code")
    import c09

    ctx.include("C17.8", "prerequisite shared with C09: taint reachability is the full reflexive-transitive closure (a bounded search makes the answer depend on hash order) and every version of a variable gets its own claim (shared with C09.1/C09.4)", c09.rule_taint, c09.rule_selection, only=["taints_any", "multi_step_taint", "report/"])
    ctx.include("C17.5", "a file that fails to parse does not stop the remaining files from being read (otherwise findings depend on the order of the command line)", c19.rule_user_inputs, only=["parse_files/"])
    import parseval

    ctx.include("C17.16", "what `parse_files` builds does not depend on the order in which the files were read: with two main components it reports and builds nothing, for every order of the projects it is evaluated on (shared with C02.14)", lambda c: parseval.rule(c, "C02.14"))
    ctx.include("C17.7", "whether a file counts as user input does not depend on the order in which files were read: the user inputs are the set of canonical paths queued from the command line, and the stack holds plain canonical paths (shared with C19.1/C19.4)", c19.rule_canonical, c19.rule_user_inputs)
