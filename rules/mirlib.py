"""Helpers over the MIR facts (engines/mirfacts): function index, call graph with
formatting edges, reachability, per-function CFG utilities."""
import re

import facts

LOG_MACROS = {"trace", "debug", "info", "warn", "error", "log"}

_index = None


def index():
    """id -> fn facts (workspace crates)"""
    global _index
    if _index is None:
        _index = {}
        for crate, d in facts.mir().items():
            for fn in d["fns"]:
                fn["crate"] = crate
                _index[fn["id"]] = fn
    return _index


def hand_written(fn):
    return not fn.get("gen")


def calls_of(fn):
    """yield call terminators (dicts) of the non-cleanup blocks"""
    for i, b in enumerate(fn["blocks"]):
        if b.get("cleanup"):
            continue
        t = b["term"]
        if t["k"] == "call":
            yield i, t


def is_log_call(t):
    return bool(set(t.get("mac") or []) & LOG_MACROS)


def short(ty):
    """last path segment of a type text, without refs / generics"""
    ty = ty.strip()
    ty = re.sub(r"^&(mut )?", "", ty)
    ty = re.sub(r"^std::boxed::Box<(.*)>$", r"\1", ty)
    ty = re.sub(r"<.*>$", "", ty)
    return ty.rsplit("::", 1)[-1]


_fmt_impls = None


def fmt_impls():
    """(trait 'Debug'|'Display', type short name) -> fn id of the workspace impl"""
    global _fmt_impls
    if _fmt_impls is None:
        _fmt_impls = {}
        for fid, fn in index().items():
            m = re.match(r"<(.+) as (?:std|core)::fmt::(Debug|Display)>::fmt$", fn["pretty"])
            if m:
                _fmt_impls[(m.group(2), short(m.group(1)))] = fid
    return _fmt_impls


def edges(fn, include_log=False):
    """callee ids reachable in one step: resolved calls, closures built here, formatting of workspace types"""
    out = set()
    for _i, t in calls_of(fn):
        if not include_log and is_log_call(t):
            continue
        if t.get("callee"):
            out.add(t["callee"])
        p = t.get("pretty") or ""
        m = re.search(r"Argument::<'_>::new_(debug|display)", p) or re.search(r"Argument::new_(debug|display)", p)
        if m and len(t.get("gargs", [])) > 1:
            tr = "Debug" if m.group(1) == "debug" else "Display"
            fid = fmt_impls().get((tr, short(t["gargs"][1])))
            if fid:
                out.add(fid)
        if p.endswith("ToString>::to_string") or p.endswith("ToString::to_string"):
            if t.get("gargs"):
                fid = fmt_impls().get(("Display", short(t["gargs"][0])))
                if fid:
                    out.add(fid)
    for c in fn.get("closures", []):
        out.add(c)
    return out


def reach(start_ids, include_log=False, limit=20000):
    idx = index()
    seen = {}
    stack = [(s, None) for s in start_ids]
    while stack:
        f, parent = stack.pop()
        if f in seen:
            continue
        seen[f] = parent
        fn = idx.get(f)
        if fn is None:
            continue
        for e in edges(fn, include_log):
            if e not in seen:
                stack.append((e, f))
        if len(seen) > limit:
            break
    return seen


def path_to(seen, target):
    p = []
    while target is not None:
        p.append(target)
        target = seen.get(target)
    return list(reversed(p))


def find(pretty_suffix):
    return [fn for fn in index().values() if fn["pretty"].endswith(pretty_suffix)]
