"""Semantic grep over the JSON syntax tree: structural patterns with metavariables.

A pattern is Rust expression / statement text (parsed by astq) in which every
identifier that starts with `__` is a metavariable:
  * in expression position it matches any expression (the same metavariable
    must match structurally equal expressions everywhere in the pattern);
  * as a closure parameter / `let` / `for` / pattern binding it matches any
    binding name and binds that name.
Matching ignores references, derefs, `.clone()`, parentheses, `Box::new`
(astlib.strip) on both sides, turbofish arguments unless the pattern has
them, and `Some`/`Option::Some` spelling.  `find(root, pattern)` searches
every sub-node; with `env` (name -> init expression of simple lets) a path
identifier of the code that does not match is replaced by its definition and
matched again, so introducing or inlining a `let` does not matter.

This keeps rules insensitive to renamed locals, added or removed temporaries
and formatting, while still being exact about the shape that matters."""
import facts
from astlib import is_node, render, strip, walk

_pcache = {}


def pattern(text):
    if text not in _pcache:
        r = facts.parse_exprs([text])[0]
        if r.get("k") == "ParseError":
            raise ValueError("bad pattern %r: %s" % (text, r.get("error")))
        # a block wrapping a single expression statement: unwrap
        if r["k"] == "Block" and len(r["stmts"]) == 1 and r["stmts"][0]["k"] == "ExprStmt":
            r = r["stmts"][0]["e"]
        elif r["k"] == "Block" and len(r["stmts"]) == 1 and r["stmts"][0]["k"] == "Local":
            r = r["stmts"][0]
        if r["k"] == "Let" and text.lstrip().startswith("let "):
            r = {"k": "Local", "pat": r["pat"], "init": r["e"]}
        _pcache[text] = r
    return _pcache[text]


def is_meta(name):
    return isinstance(name, str) and name.startswith("__")


def norm_path(p):
    if p in ("Option::Some", "std::option::Option::Some"):
        return "Some"
    if p in ("Option::None", "std::option::Option::None"):
        return "None"
    return p


SKIP_KEYS = {"line", "mline", "end_line", "shorthand", "turbofish", "generics", "semi", "raw", "parsed", "delim", "move", "mut", "by_ref", "ty"}


def match(pat, node, binds, env=None, depth=0):
    """-> True/False, extending binds (dict metavar -> rendered text or name)"""
    if depth > 40:
        return False
    if isinstance(pat, list):
        if not isinstance(node, list) or len(pat) != len(node):
            return False
        return all(match(p, n, binds, env, depth + 1) for p, n in zip(pat, node))
    if not isinstance(pat, dict):
        return pat == node
    if not isinstance(node, dict):
        return False
    if "k" in pat:
        p = strip(pat) if pat["k"] not in ("PIdent",) else pat
        n = strip(node) if node.get("k") not in ("PIdent",) else node
        # typed / by-reference bindings on the code side: `x: &T`, `&x`
        while isinstance(n, dict) and n.get("k") in ("PType", "PRef") and p.get("k") not in ("PType", "PRef"):
            n = n["pat"]
        # metavariable in expression position
        if p["k"] == "Path" and is_meta(p["path"]):
            txt = render(n)
            if p["path"] in binds:
                return binds[p["path"]] == txt
            binds[p["path"]] = txt
            return True
        if p["k"] == "PIdent" and is_meta(p["name"]):
            if n.get("k") != "PIdent":
                return False
            if p["name"] in binds:
                return binds[p["name"]] == n["name"]
            binds[p["name"]] = n["name"]
            return True
        # `{ __any }` matches any block
        if p["k"] == "Block" and len(p["stmts"]) == 1 and p["stmts"][0]["k"] == "ExprStmt" and p["stmts"][0]["e"].get("k") == "Path" and is_meta(p["stmts"][0]["e"]["path"]):
            return n.get("k") == "Block"
        if p["k"] != n.get("k"):
            # try resolving a plain identifier of the code through its let definition
            if env and n.get("k") == "Path" and n["path"] in env and depth < 30:
                saved = dict(binds)
                if match(p, env[n["path"]], binds, env, depth + 1):
                    return True
                binds.clear()
                binds.update(saved)
            return False
        if p["k"] == "Path":
            if norm_path(p["path"]) == norm_path(n["path"]):
                return True
            if env and n["path"] in env:
                return match(p, env[n["path"]], binds, env, depth + 1)
            return False
        if p["k"] == "PStruct":
            # field order insensitive
            if norm_path(p["path"]) != norm_path(n["path"]):
                return False
            nf = {f["name"]: f for f in n["fields"]}
            for f in p["fields"]:
                if f["name"] not in nf:
                    return False
                if not match(f["pat"], nf[f["name"]]["pat"], binds, env, depth + 1):
                    return False
            return True
        if p["k"] == "Struct":
            if norm_path(p["path"]) != norm_path(n["path"]):
                return False
            nf = {f["name"]: f for f in n["fields"]}
            for f in p["fields"]:
                if f["name"] not in nf:
                    return False
                if not match(f["e"], nf[f["name"]]["e"], binds, env, depth + 1):
                    return False
            return len(p["fields"]) == len(n["fields"])
        for k, v in p.items():
            if k in SKIP_KEYS or k == "k":
                continue
            if k == "path":
                if norm_path(v) != norm_path(n.get(k)):
                    return False
                continue
            if k not in n:
                return False
            if not match(v, n[k], binds, env, depth + 1):
                return False
        return True
    # plain dict (e.g. struct field entry)
    for k, v in pat.items():
        if k in SKIP_KEYS:
            continue
        if k not in node or not match(v, node[k], binds, env, depth + 1):
            return False
    return True


def find(root, pat_text, env=None, binds=None):
    """all (node, bindings) in root matching the pattern"""
    p = pattern(pat_text)
    out = []
    for n in walk(root):
        b = dict(binds or {})
        if match(p, n, b, env):
            out.append((n, b))
    return out


def has(root, pat_text, env=None, binds=None):
    return bool(find(root, pat_text, env, binds))


def find_any(root, pat_texts, env=None):
    for t in pat_texts:
        r = find(root, t, env)
        if r:
            return r
    return []


def lets(root):
    """name -> init for every simple `let name = init;` in root (last one wins)"""
    env = {}
    for n in walk(root):
        if n["k"] == "Local" and n["init"] is not None:
            p = n["pat"]
            if p["k"] == "PType":
                p = p["pat"]
            if p["k"] == "PIdent":
                env[p["name"]] = n["init"]
    return env


def params(fn):
    out = []
    for i in fn["sig"]["inputs"]:
        if i.get("self"):
            continue
        p = i["pat"]
        out.append(p["name"] if p["k"] == "PIdent" else None)
    return out


def each_calls(body, coll_pat, method, env=None, allow_guard=None):
    """Is `method` called on every element of the collection matching coll_pat, unconditionally?
    Accepts `for x in COLL { .. x.method(..) .. }` and COLL.for_each / try_for_each / map(|x| x.method(..)).
    Returns (ok, description)."""
    from pathcond import conditions_to, fact_str

    cp = pattern(coll_pat)
    for n in walk(body):
        if n["k"] == "For" and match(cp, n["iter"], {}, env):
            names = [b["name"] for b in walk(n["pat"]) if b["k"] == "PIdent"]
            for c in walk(n["body"]):
                if c["k"] == "MethodCall" and c["method"] == method and (render(strip(c["recv"])) in names or any(render(strip(a)) in names for a in c["args"])):
                    cs = [fact_str(x) for x in (conditions_to(n["body"], c) or []) if not (allow_guard and allow_guard(x))]
                    if not cs:
                        return True, "for-loop"
                    return False, "call guarded by %s" % cs
                if c["k"] == "Call" and render(c["func"]).endswith(method) and any(render(strip(a)) in names for a in c["args"]):
                    cs = [fact_str(x) for x in (conditions_to(n["body"], c) or []) if not (allow_guard and allow_guard(x))]
                    if not cs:
                        return True, "for-loop"
                    return False, "call guarded by %s" % cs
        if n["k"] == "MethodCall" and n["method"] in ("for_each", "try_for_each", "map", "flat_map", "fold", "try_fold", "any", "all") and n["args"]:
            recv = n["recv"]
            # walk down adaptor chain: only order/cardinality preserving adaptors allowed
            chain_ok = True
            r = recv
            while r["k"] == "MethodCall" and r["method"] in ("iter", "iter_mut", "into_iter", "by_ref", "cloned", "copied"):
                r = r["recv"]
            if match(cp, recv, {}, env) or match(cp, r, {}, env):
                cl = n["args"][-1]
                if cl["k"] == "Closure":
                    names = [b["name"] for p in cl["inputs"] for b in walk(p) if b["k"] == "PIdent"]
                    for c in walk(cl["body"]):
                        if c["k"] == "MethodCall" and c["method"] == method and (render(strip(c["recv"])) in names or any(render(strip(a)) in names for a in c["args"])):
                            cs = [fact_str(x) for x in (conditions_to(cl["body"], c) or [])] if cl["body"] is not c else []
                            if not cs:
                                return True, "iterator " + n["method"]
                            return False, "call guarded by %s" % cs
    return False, "no iteration over %s calling %s on each element" % (coll_pat, method)


def _conditions_to(root, target):
    from pathcond import conditions_to

    return conditions_to(root, target)


def visits_all_statements(fn, visitor=None):
    """Does the pass look at every statement of every basic block of its cfg parameter?  Accepted shapes:
    `for b in cfg.iter() { for s in b.iter() { V } }`, `for s in cfg.iter().flat_map(|b| b.iter()) { V }` and
    `cfg.iter().flat_map(|b| b.iter()).for_each(|s| V)`, where V is reached for every statement: no `break`/`return`
    in the loops, and - when a visitor function is named - V is an unconditional call of it."""
    pv = params(fn)
    if not pv:
        return False, "no cfg parameter"
    cfg = pv[0]
    flat = "%s.iter().flat_map(|__b| __b.iter())" % cfg
    shapes = []
    for n, b in find(fn["body"], "for __b in %s.iter() { __body }" % cfg):
        n = strip(n)
        if n.get("k") != "For":
            continue
        for n2, b2 in find(n["body"], "for __s in %s.iter() { __inner }" % b["__b"]) + find(n["body"], "for __s in %s { __inner }" % b["__b"]):
            n2 = strip(n2)
            if n2.get("k") == "For" and not (_conditions_to(n["body"], n2) or []) and not any(sh[1] is n2["body"] for sh in shapes):
                shapes.append(("nested loops", n2["body"], b2["__s"]))
    for n, b in find(fn["body"], "for __s in %s { __body }" % flat):
        n = strip(n)
        if n.get("k") == "For" and not any(sh[1] is n["body"] for sh in shapes):
            shapes.append(("flat_map loop", n["body"], b["__s"]))
    for n, b in find(fn["body"], "%s.for_each(|__s| __v)" % flat):
        cl = n["args"][0]
        shapes.append(("flat_map/for_each", cl["body"], b["__s"]))
    if len(shapes) != 1:
        return False, "expected one traversal of every statement of every block, found %d" % len(shapes)
    how, body, svar = shapes[0]
    # no statement may be skipped: no early exit inside the traversal (exits before it are the caller's business)
    trav = [n for n in walk(fn["body"]) if n["k"] in ("For", "MethodCall") and any(x is body for x in walk(n))]
    if any(r["k"] in ("Return", "Break") for t_ in trav[:1] for r in walk(t_)):
        return False, "%s: early exit inside the traversal" % how
    if visitor:
        cs_ = [c for c in walk(body) if c["k"] == "Call" and c["func"]["k"] == "Path" and c["func"]["path"].rsplit("::", 1)[-1] == visitor]
        if len(cs_) != 1 or render(strip(cs_[0]["args"][0])) != svar:
            return False, "%s: the visitor is not called once with the statement" % how
        if body is not cs_[0] and (_conditions_to(body, cs_[0]) or []):
            return False, "%s: the visitor call is conditional" % how
    return True, how




def per_record(body, coll_pat, env=None):
    """The code executed once for every element of the collection matching `coll_pat`: (element name, body node, how,
    produced) for `for x in C { body }` and `C.iter().map|for_each|filter_map|flat_map(|x| body)`; `produced` tells
    whether the value of the body is what is kept (`map`) rather than its effects (`for`, `for_each`)."""
    cp = pattern(coll_pat)
    out = []
    for n in walk(body):
        if n["k"] == "For":
            it = strip(n["iter"])
            r = it
            while r["k"] == "MethodCall" and r["method"] in ("iter", "iter_mut", "into_iter", "cloned", "copied") and not r["args"]:
                r = strip(r["recv"])
            if match(cp, it, {}, env) or match(cp, r, {}, env):
                names = [b["name"] for b in walk(n["pat"]) if b["k"] == "PIdent"]
                if len(names) == 1:
                    out.append((names[0], n["body"], "for-loop", False))
        if n["k"] == "MethodCall" and n["method"] in ("map", "for_each", "filter_map", "flat_map") and n["args"] and n["args"][-1]["k"] == "Closure":
            r = strip(n["recv"])
            while r["k"] == "MethodCall" and r["method"] in ("iter", "iter_mut", "into_iter", "cloned", "copied") and not r["args"]:
                r = strip(r["recv"])
            if match(cp, r, {}, env):
                cl = n["args"][-1]
                names = [b["name"] for p in cl["inputs"] for b in walk(p) if b["k"] == "PIdent"]
                if len(names) == 1:
                    out.append((names[0], cl["body"], "iterator " + n["method"], n["method"] in ("map", "filter_map", "flat_map")))
    return out
