"""`parser::parse_files` by evaluation (shared by C02, C03, C17, C19).

The function is run on small projects: 0..3 files are handed out by the file stack, each of which parses with
warnings (with or without a main component) or fails with an error; the archive constructor succeeds or returns
duplicate-definition errors.  The collaborators (file stack, per-file parser, archive / library constructors, the
desugaring entry point) are replaced by recording stand-ins; everything else is the code of `parse_files` itself.

What must hold in every world:
  * every warning of every parsed file and the error of every failed file is in the collection returned, once;
  * `multiple main components` is reported exactly when two or more of the parsed files - user inputs or included -
    define one; with exactly one the program archive is built from that file's component, with none a library;
  * the errors of a failed archive construction are in the collection once;
  * the definitions of every parsed file are handed to the archive / library constructor;
  * desugaring is applied to whatever was built, with the collection that is returned.
"""
import itertools

import passeval
from finfun import NONE, S, Unsupported
from passeval import MMap, O, Panic, Sink, V

LIB = "parser/src/lib.rs"
OUTCOMES = ("ok", "ok-main", "err")


class World:
    def __init__(self, combo, archive_ok, anon_main):
        self.combo, self.archive_ok, self.anon_main = combo, archive_ok, anon_main
        self.tag = "files %s%s%s" % (list(combo), "" if archive_ok else ", archive construction fails", ", main expression is an anonymous component" if anon_main else "")
        self.paths = [("O", "path#%d" % i, ()) for i in range(len(combo))]
        self.fids = [("O", "file-id#%d" % i, ()) for i in range(len(combo))]
        self.warnings = [[("O", "warning#%d.%d" % (i, j), ()) for j in range(2 if i == 0 else 1)] for i in range(len(combo))]
        self.errors = [("O", "error#%d" % i, ()) for i in range(len(combo))]
        self.mains = [("O", "main-component#%d" % i, ()) for i in range(len(combo))]
        # (a file that parses without a main component may also hold no definitions at all: includes and pragmas only)
        self.defs = [("L", (("O", "definition#%d" % i, ()),) if not (combo[i] == "ok" and i % 2 == 1) else ()) for i in range(len(combo))]
        self.archive_errors = [("O", "archive-error#%d" % j, ()) for j in range(2)]
        self.library_report = ("O", "library-report", ())
        self.multiple_main = ("O", "multiple-main-report", ())
        self.desugar_report = ("O", "desugar-report", ())
        self.anon_report = ("O", "anonymous-main-report", ())
        self.next = 0
        self.archive_args = None
        self.library_args = []
        self.desugared_with = []

    def expected_reports(self):
        want = []
        for i, o in enumerate(self.combo):
            want += self.warnings[i] if o != "err" else [self.errors[i]]
        nmain = sum(1 for o in self.combo if o == "ok-main")
        if nmain >= 2:
            want.append(self.multiple_main)
        if nmain == 1 and not self.archive_ok:
            want += self.archive_errors
        if nmain != 1:
            want.append(self.library_report)
        if nmain == 1 and self.archive_ok and self.anon_main:
            want.append(self.anon_report)
        want.append(self.desugar_report)
        return want


def worlds():
    for n in range(0, 4):
        for combo in itertools.product(OUTCOMES, repeat=n):
            nmain = sum(1 for o in combo if o == "ok-main")
            if nmain == 1:
                yield World(combo, True, False)
                yield World(combo, False, False)
                if n <= 2:
                    yield World(combo, True, True)
            else:
                yield World(combo, True, False)


def evaluate():
    """returns (number of worlds, {aspect: first deviation}); raises Unsupported when parse_files is outside the
    evaluator's subset"""
    w = passeval.PassWorld([LIB], LIB)
    w.lenient_opaque = True
    fn = w.free.get("parse_files")
    if fn is None:
        raise Unsupported("parser::parse_files not found")
    bad = {}
    n = 0
    for wd in worlds():
        stack = ("O", "file_stack", ())

        def file_stack(name, args, wd=wd, stack=stack):
            if name == "new":
                return stack
            if name == "take_next":
                if wd.next < len(wd.paths):
                    wd.next += 1
                    return S("Some", wd.paths[wd.next - 1])
                return NONE
            return ("K", "FileStack::" + name, tuple(args))

        def parse_file(args, wd=wd):
            i = [k for k, p_ in enumerate(wd.paths) if p_ is args[0]]
            if not i:
                raise Unsupported("parse_file called with %r" % (args[0],))
            i = i[0]
            if wd.combo[i] == "err":
                return S("Err", wd.errors[i])
            ws = Sink()
            ws.items = list(wd.warnings[i])
            prog = ("O", "program#%d" % i, (("main_component", S("Some", wd.mains[i]) if wd.combo[i] == "ok-main" else NONE), ("custom_gates", False), ("definitions", wd.defs[i]), ("includes", ("L", ())), ("compiler_version", NONE)))
            return S("Ok", ("T", (wd.fids[i], prog, ws)))

        flib = ("O", "file_library", (("is_user_input", ("PY", lambda fid, wd=wd: bool(wd.fids) and fid is wd.fids[0])),))

        def archive_new(name, args, wd=wd):
            if name != "new":
                return ("K", "ProgramArchive::" + name, tuple(args))
            wd.archive_args = args
            if not wd.archive_ok:
                es = Sink()
                es.items = list(wd.archive_errors)
                return S("Err", ("T", (args[0], es)))
            return S("Ok", V("ProgramArchive", "ProgramArchive", templates=O("templates"), functions=O("functions"), file_library=args[0]))

        def library_new(name, args, wd=wd):
            if name != "new":
                return ("K", "TemplateLibrary::" + name, tuple(args))
            wd.library_args.append(args)
            rs = Sink()
            rs.items = [wd.library_report]
            return V("TemplateLibrary", "TemplateLibrary", templates=O("templates"), functions=O("functions"), file_library=args[1] if len(args) > 1 else None, reports=rs)

        def errors_ns(name, args, wd=wd):
            if name == "MultipleMainError::produce_report":
                return wd.multiple_main
            if name.startswith("AnonymousComponentError::"):
                return ("O", "anonymous-component-error", (("into_report", wd.anon_report),))
            return ("K", "errors::" + name, tuple(args))

        def sugar(name, args, wd=wd):
            if name != "remove_syntactic_sugar":
                return ("K", "syntax_sugar_remover::" + name, tuple(args))
            sinks = [a for a in args if isinstance(a, Sink)]
            if len(sinks) != 1:
                raise Unsupported("remove_syntactic_sugar without one report collection")
            wd.desugared_with.append(sinks[0])
            sinks[0].items.append(wd.desugar_report)
            return ("T", (O("desugared-templates"), O("desugared-functions")))

        main_expr = ("O", "main-expression", (("is_anonymous_component", wd.anon_main), ("meta", O("main-meta"))))
        w.method_stubs = {("ProgramArchive", "main_expression"): lambda recv, args: main_expr}
        w.stubs = {"parse_file": parse_file}
        w.opaque = (("FileStack::", file_stack), ("FileLibrary::", lambda name, args: flib if name == "new" else ("K", "FileLibrary::" + name, tuple(args))), ("ProgramArchive::", archive_new), ("TemplateLibrary::", library_new),
                    ("errors::", errors_ns), ("syntax_sugar_remover::", sugar))
        try:
            res = w.call_fn(fn, [("L", tuple(wd.paths)), ("L", ()), O("compiler_version")])
        except Panic as p_:
            bad.setdefault("no-panic", "%s: %s" % (wd.tag, p_))
            continue
        n += 1
        if not (isinstance(res, tuple) and len(res) > 2 and res[0] == "S" and res[1] in ("Program", "Library") and len(res[2]) == 2 and isinstance(res[2][1], Sink)):
            raise Unsupported("parse_files returns %r" % (res,))
        kind, built, reports = res[1], res[2][0], res[2][1]
        nmain = sum(1 for o in wd.combo if o == "ok-main")
        want_kind = "Program" if nmain == 1 and wd.archive_ok else "Library"
        if kind != want_kind:
            bad.setdefault("kind", "%s: a %s is returned, expected a %s" % (wd.tag, kind.lower(), want_kind.lower()))
        want = wd.expected_reports()
        got = list(reports.items)
        for x in want:
            c = sum(1 for y in got if y is x)
            if c == 0:
                aspect = "multiple-main" if x is wd.multiple_main else ("file-reports" if x[1].startswith(("warning", "error#")) else ("archive-errors" if x[1].startswith("archive") else ("desugaring" if x is wd.desugar_report or x is wd.anon_report else "library-reports")))
                bad.setdefault(aspect, "%s: `%s` is not in the collection returned" % (wd.tag, x[1]))
            elif c > 1:
                bad.setdefault("once", "%s: `%s` is in the collection %d times" % (wd.tag, x[1], c))
        for y in got:
            if not any(y is x for x in want):
                nm = y[1] if isinstance(y, tuple) and len(y) > 1 else repr(y)
                aspect = "multiple-main" if y is wd.multiple_main else "once"
                bad.setdefault(aspect, "%s: `%s` is in the collection, unexpectedly" % (wd.tag, nm))
        # the main component and the definitions handed to the constructors
        oks = [i for i, o in enumerate(wd.combo) if o != "err"]
        ctor_args = [wd.archive_args] if nmain == 1 and wd.archive_args is not None else []
        ctor_args += wd.library_args
        for args in ctor_args:
            maps = [a for a in args if isinstance(a, MMap)]
            if len(maps) != 1:
                raise Unsupported("constructor called without one definition map")
            for i in oks:
                p_ = maps[0].find(wd.fids[i])
                if p_ is None or p_[1] is not wd.defs[i]:
                    bad.setdefault("definitions", "%s: the definitions of file %d are not handed to the %s constructor" % (wd.tag, i, "archive" if args is wd.archive_args else "library"))
        if nmain == 1 and wd.archive_args is not None:
            mi = [i for i, o in enumerate(wd.combo) if o == "ok-main"][0]
            if not any(a is wd.mains[mi] for a in wd.archive_args) or not any(a is wd.fids[mi] for a in wd.archive_args):
                bad.setdefault("kind", "%s: the archive is not built from the main component of file %d and its file id" % (wd.tag, mi))
        elif nmain == 1:
            bad.setdefault("kind", "%s: the archive constructor is not called" % wd.tag)
        if isinstance(built, tuple) and len(built) > 3 and built[0] == "V":
            for fld in ("templates", "functions"):
                got_f = built[3].get(fld)
                if not (isinstance(got_f, tuple) and len(got_f) > 1 and got_f[1] == "desugared-" + fld):
                    bad.setdefault("desugaring", "%s: the %s of the %s returned are not the desugared ones" % (wd.tag, fld, kind.lower()))
        else:
            raise Unsupported("parse_files returns a %r" % (built,))
        if len(wd.desugared_with) != 1 or wd.desugared_with[0] is not reports:
            bad.setdefault("desugaring", "%s: desugaring runs %d time(s)%s" % (wd.tag, len(wd.desugared_with), "" if not wd.desugared_with or wd.desugared_with[0] is reports else ", with a collection other than the one returned"))
    return n, bad


_CACHE = {}


def result():
    """(n, bad) or ('unsupported', text); evaluated once per process"""
    import facts

    key = facts.repo() if hasattr(facts, "repo") else "repo"
    if key not in _CACHE:
        try:
            _CACHE[key] = evaluate()
        except Unsupported as u:
            _CACHE[key] = ("unsupported", str(u))
    return _CACHE[key]


ASPECTS = {
    "no-panic": "no project makes parse_files panic",
    "file-reports": "the warnings of every parsed file and the error of every failed file are in the collection returned",
    "once": "each report is in the collection once and nothing else is",
    "multiple-main": "`multiple main components` is reported exactly when two or more parsed files - named or included - define one",
    "kind": "a program archive is built exactly when one file defines a main component and construction succeeds, from that component",
    "archive-errors": "the errors of a failed archive construction are in the collection returned",
    "library-reports": "the reports of the template library are in the collection returned",
    "definitions": "the definitions of every parsed file are handed to the archive / library constructor",
    "desugaring": "desugaring is applied once, to what was built, with the collection that is returned; the desugared templates and the filtered functions replace the parsed ones",
}


def rule(ctx, R, aspects=None, floor=True):
    """obligations `parse_files/table/<aspect>`; returns True when the evaluation decided"""
    from astlib import find_fn, site

    r = result()
    fn = find_fn(LIB, "parse_files")
    if r[0] == "unsupported":
        ctx.note("parser::parse_files is outside the evaluator's subset (%s): shape obligations apply" % r[1])
        return False
    n, bad = r
    if floor:
        ctx.floor(R, "project worlds evaluated (parse_files)", n, 60)
    for a in aspects or list(ASPECTS):
        ctx.check(R, "parse_files/table/" + a, a not in bad, bad.get(a, ASPECTS[a]), site(LIB, fn) if fn else None)
    return True
