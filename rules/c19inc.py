"""Include resolution by evaluation (C19.3): `FileStack::add_include` (with `include_library`) is run on a small file
system - the directory of the including file, a library directory and a library file given with -L - for includes
of every shape: a file next to the including file (also present in the library directory), a file only in the library
directory, the library file by its bare name, a path with a directory component, a path that starts with `./`,
a file that is both next to the including file and a library file, a file that exists only in the working directory of
the process, and a file that exists nowhere.

Expected: the file next to the including file wins; the library directory is asked only for paths that do not start
with `.`; the library file only for a bare file name equal to its own; everything else is the include error; and
resolving one include leaves the place the *next* include is resolved from (the including file's directory) alone."""
import posixpath

import passeval
from finfun import NONE, S, Unsupported
from passeval import MSet, Panic, Sink

INC = "parser/src/include_logic.rs"
ERRS = "parser/src/errors.rs"

SRC = "/proj/src"
LIBDIR = "/libs/dir"
LIBFILE = "/vendor/bits.circom"
LIBFILE2 = "/vendor2/both.circom"
CWD = "/cwd"
FILES = {SRC + "/both.circom", LIBFILE2, CWD + "/cwdonly.circom", SRC + "/local.circom", LIBDIR + "/local.circom", LIBDIR + "/onlylib.circom", LIBFILE, SRC + "/second.circom", LIBDIR + "/sub/deep.circom", "/proj/up.circom"}

# include text -> canonical path queued, or None for the include error
CASES = [
    ("local.circom", SRC + "/local.circom"),
    ("onlylib.circom", LIBDIR + "/onlylib.circom"),
    ("bits.circom", LIBFILE),
    ("sub/deep.circom", LIBDIR + "/sub/deep.circom"),
    ("../up.circom", "/proj/up.circom"),
    ("gadgets/bits.circom", None),
    ("./bits.circom", None),
    ("./onlylib.circom", None),
    ("missing.circom", None),
    ("second.circom", SRC + "/second.circom"),
    ("both.circom", SRC + "/both.circom"),   # next to the including file *and* a library file of that name
    ("cwdonly.circom", None),                # exists in the process working directory only
]


class NotCanonical(Exception):
    pass


class Paths:
    def __init__(self):
        self.cells = {}
        self.keep = []
        self.canonical = set()  # ids of path objects that came out of fs::canonicalize (or are copies of such)

    def make(self, text, canonical=False):
        cell = [text]

        def push(x):
            x = self.text(x)
            cell[0] = x if x.startswith("/") else posixpath.join(cell[0], x)
            return ("T", ())

        def pop():
            cell[0] = posixpath.dirname(cell[0])
            return True

        o = ("O", "path", (
            ("clone", ("PY", lambda: self.make(cell[0], id(o) in self.canonical))), ("to_path_buf", ("PY", lambda: self.make(cell[0], id(o) in self.canonical))), ("to_owned", ("PY", lambda: self.make(cell[0], id(o) in self.canonical))),
            ("push", ("PY", lambda x: (self.canonical.discard(id(o)), push(x))[1])), ("pop", ("PY", pop)),
            ("join", ("PY", lambda x: self.make(self.text(x) if self.text(x).startswith("/") else posixpath.join(cell[0], self.text(x))))),
            ("file_name", ("PY", lambda: S("Some", posixpath.basename(cell[0])) if posixpath.basename(cell[0]) else NONE)),
            ("parent", ("PY", lambda: S("Some", self.make(posixpath.dirname(cell[0]))))),
            ("display", ("PY", lambda: cell[0])), ("as_path", ("PY", lambda: o)), ("as_ref", ("PY", lambda: o)),
            ("is_dir", ("PY", lambda: cell[0] in (SRC, LIBDIR))), ("exists", ("PY", lambda: posixpath.normpath(cell[0]) in FILES)),
        ))
        self.cells[id(o)] = cell
        self.keep.append(o)
        if canonical:
            self.canonical.add(id(o))
        return o

    def text(self, v):
        if isinstance(v, str):
            return v
        if isinstance(v, tuple) and id(v) in self.cells:
            return self.cells[id(v)][0]
        raise Unsupported("a path made some other way: %r" % (v,))


def run_sequence(includes):
    """-> list of (result kind, queued canonical path | None, current_location after the call)"""
    w = passeval.PassWorld([ERRS, INC], INC)
    w.lenient_opaque = True
    if "FileStack" not in w.structs or ("FileStack", "add_include") not in w.methods:
        raise Unsupported("FileStack::add_include not found")
    P = Paths()

    def canonicalize(args):
        t = P.text(args[0])
        t = posixpath.normpath(t if t.startswith("/") else posixpath.join(CWD, t))  # a relative path is relative to the process
        return S("Ok", P.make(t, True)) if t in FILES else S("Err", ("O", "io-error", ()))

    w.stubs = {"canonicalize": canonicalize}
    w.opaque = (("OsString::from", lambda _n, a: P.text(a[0])), ("OsStr::new", lambda _n, a: P.text(a[0])), ("std::ffi::OsStr::new", lambda _n, a: P.text(a[0])), ("std::ffi::OsString::from", lambda _n, a: P.text(a[0])), ("Path::new", lambda _n, a: P.make(P.text(a[0]))), ("PathBuf::from", lambda _n, a: P.make(P.text(a[0]))))
    if "MAIN_SEPARATOR" not in w.consts:
        w.consts["std::path::MAIN_SEPARATOR"] = {"k": "Lit", "lit": "char", "value": "/", "line": 0}
        w.consts["MAIN_SEPARATOR"] = w.consts["std::path::MAIN_SEPARATOR"]
        w.consts["path::MAIN_SEPARATOR"] = w.consts["std::path::MAIN_SEPARATOR"]
    stack = Sink()
    libs = Sink()
    lf = w.structs.get("Library")
    if not lf:
        raise Unsupported("struct Library not found")
    for is_dir, p in ((True, LIBDIR), (False, LIBFILE), (False, LIBFILE2)):
        libs.items.append(S("Library", *[{"dir": is_dir, "path": P.make(p, not is_dir)}[f_] for f_ in lf]))  # (a library file is stored canonicalised)
    here = P.make(SRC)
    vals = {"current_location": S("Some", here), "black_paths": MSet([]), "user_inputs": MSet([]), "listed_dirs": MSet([]), "libraries": libs, "stack": stack}
    fields = w.structs["FileStack"]
    cur = {"v": vals["current_location"]}

    def set_field(name, val):
        if name == "current_location":
            cur["v"] = val
        return ("T", ())

    missing = [f_ for f_ in fields if f_ not in vals]
    if missing:
        raise Unsupported("FileStack has fields the world does not know: %s" % missing)
    fs_ = S("FileStack", *[vals[f_] for f_ in fields])
    out = []
    fn = w.methods[("FileStack", "add_include")][0]
    for text in includes:
        meta = ("O", "include-meta", (("file_id", S("Some", 3)), ("file_location", ("O", "location-of-the-include", ()))))
        inc = ("O", "include", (("path", text), ("meta", meta)))
        before = len(stack.items)
        res = w.call_fn(fn, [fs_, inc])
        kind = res[1] if isinstance(res, tuple) and len(res) > 2 and res[0] == "S" else "?"
        queued = [P.text(x) for x in stack.items[before:]]
        for x in stack.items[before:]:
            if id(x) not in P.canonical:
                raise NotCanonical("include \"%s\": the path queued, %s, is not the result of fs::canonicalize (nor the stored path of a library file)" % (text, P.text(x)))
        loc = w.struct_field(fs_, "current_location")
        loc_t = P.text(loc[2][0]) if isinstance(loc, tuple) and len(loc) > 2 and loc[1] == "Some" else None
        out.append((kind, queued, loc_t))
    return out


def eval_take_next():
    """`FileStack::take_next` on a stack [a, b, c'] with c already visited (c' is another path object with the text of c):
    -> problem text or None"""
    w = passeval.PassWorld([ERRS, INC], INC)
    w.lenient_opaque = True
    if ("FileStack", "take_next") not in w.methods:
        raise Unsupported("FileStack::take_next not found")
    P = Paths()
    passeval.VALUE_KEY[0] = lambda v: P.cells[id(v)][0] if isinstance(v, tuple) and id(v) in P.cells else None
    try:
        a, b, c, c2, d = (P.make("/proj/src/a.circom", True), P.make("/proj/lib/b.circom", True), P.make("/proj/src/c.circom", True), P.make("/proj/src/c.circom", True), P.make("/other/d.circom", True))
        stack = Sink()
        stack.items = [a, d, b, c2]
        black = MSet([c, d])
        vals = {"current_location": NONE, "black_paths": black, "user_inputs": MSet([]), "listed_dirs": MSet([]), "libraries": Sink(), "stack": stack}
        fields = w.structs["FileStack"]
        missing = [f_ for f_ in fields if f_ not in vals]
        if missing:
            raise Unsupported("FileStack has fields the world does not know: %s" % missing)
        fs_ = S("FileStack", *[vals[f_] for f_ in fields])
        fn = w.methods[("FileStack", "take_next")][0]
        want = [("/proj/lib/b.circom", "/proj/lib"), ("/proj/src/a.circom", "/proj/src"), (None, "/proj/src")]
        for k_, (wp, wl) in enumerate(want):
            res = w.call_fn(fn, [fs_])
            got = P.text(res[2][0]) if isinstance(res, tuple) and len(res) > 2 and res[1] == "Some" else (None if res == NONE else "?")
            loc = w.struct_field(fs_, "current_location")
            loc_t = P.text(loc[2][0]) if isinstance(loc, tuple) and len(loc) > 2 and loc[1] == "Some" else None
            if got != wp:
                return "call %d hands out %s, expected %s (the stack holds a, d, b, c from the bottom; c and d were visited before)" % (k_ + 1, got, wp)
            if loc_t != wl:
                return "after handing out %s the directory includes are resolved from is %s, expected %s" % (got, loc_t, wl)
            if wp is not None and not any(P.cells.get(id(x), [None])[0] == wp for x in black.items):
                return "%s is handed out without being marked as visited" % wp
        return None
    finally:
        passeval.VALUE_KEY[0] = None


def rule_take_next(ctx, R):
    """True when decided"""
    from astlib import find_fn, site

    fn = find_fn(INC, "take_next")
    st = site(INC, fn) if fn else None
    try:
        problem = eval_take_next()
    except Unsupported as u:
        ctx.note("FileStack::take_next is outside the evaluator's subset (%s): shape obligations apply" % u)
        return False
    except Panic as p_:
        ctx.bad(R, "take_next/evaluated/no-panic", "panics: %s" % p_, st)
        return True
    ctx.check(R, "take_next/evaluated/hands-out-unvisited-files-once-and-moves-the-resolution-base", problem is None, problem or "visited files are skipped, a file is marked visited when it is handed out, the directory of the file handed out becomes the base for its includes, an empty stack gives None", st)
    return True


def rule(ctx, R):
    from astlib import find_fn, site

    fn = find_fn(INC, "add_include")
    st = site(INC, fn) if fn else None
    problems = {}
    n = 0
    try:
        for text, want in CASES:
            # alone, and after an include that was found through the library directory
            for before in ([], ["onlylib.circom"], ["bits.circom"]):
                res = run_sequence(before + [text])
                n += 1
                kind, queued, loc = res[-1]
                ctxt = "include \"%s\"%s" % (text, (" (after include \"%s\")" % before[0]) if before else "")
                if loc != SRC:
                    problems.setdefault("location", "%s: the directory later includes are resolved from is %s afterwards, the including file lies in %s" % (ctxt, loc, SRC))
                if want is None:
                    if kind != "Err" or queued:
                        problems.setdefault("error", "%s: resolves to %s; expected the include error (no file of that name next to the including file, the library directory is not asked for paths starting with `.`, the library file only answers to its bare name)" % (ctxt, queued or kind))
                elif kind != "Ok" or queued != [want]:
                    problems.setdefault("order", "%s: %s; expected %s" % (ctxt, ("queues %s" % queued) if kind == "Ok" else "is an error", want))
    except NotCanonical as nc:
        problems["canonical"] = str(nc)
    except Unsupported as u:
        ctx.note("add_include / include_library are outside the evaluator's subset (%s): shape obligations apply" % u)
        return False
    except Panic as p_:
        ctx.bad(R, "add_include/evaluated/no-panic", "panics: %s" % p_, st)
        return True
    ctx.check(R, "add_include/evaluated/including-file-first-then-libraries", "order" not in problems, problems.get("order") or "%d include sequences: the file next to the including file wins, then the library directory, then the library file by its bare name" % n, st)
    ctx.check(R, "add_include/evaluated/unresolvable-include-is-the-error", "error" not in problems, problems.get("error") or "paths with a directory component or a leading `.` that do not exist next to the including file are errors; nothing is queued", st)
    ctx.check(R, "add_include/evaluated/queued-paths-are-canonical", "canonical" not in problems, problems.get("canonical") or "every path queued by an include came out of fs::canonicalize or is the stored path of a library file", st)
    ctx.check(R, "add_include/evaluated/resolution-base-unchanged", "location" not in problems, problems.get("location") or "resolving an include - also through a library - leaves the directory of the including file as the base for its next include", st)
    return True
