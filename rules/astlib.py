"""Helpers over the generic JSON syntax tree produced by engines/astq."""
import re

import facts


def is_node(x):
    return isinstance(x, dict) and "k" in x


def walk(node):
    """Pre-order over every dict node with a kind."""
    stack = [node]
    while stack:
        n = stack.pop()
        if isinstance(n, dict):
            if "k" in n:
                yield n
            for v in reversed(list(n.values())):
                if isinstance(v, (dict, list)):
                    stack.append(v)
        elif isinstance(n, list):
            for v in reversed(n):
                if isinstance(v, (dict, list)):
                    stack.append(v)


def children(node):
    for v in node.values():
        if isinstance(v, dict) and "k" in v:
            yield v
        elif isinstance(v, list):
            for x in v:
                if isinstance(x, dict):
                    if "k" in x:
                        yield x
                    else:
                        for y in x.values():
                            if isinstance(y, dict) and "k" in y:
                                yield y


def is_test_item(it):
    for a in it.get("attrs", []) or []:
        s = a.replace(" ", "")
        if s.startswith("cfg(test)") or s == "test":
            return True
    return False


def all_items(items, prefix=""):
    """Flatten modules; yields (module_prefix, item); skips #[cfg(test)] modules."""
    for it in items:
        if it["k"] == "Mod":
            if is_test_item(it) or it.get("items") is None:
                continue
            yield from all_items(it["items"], prefix + it["name"] + "::")
        else:
            yield prefix, it


def fns_in_file(file):
    """Yields (qualifier, fn_node) for every non-test function in the file.
    qualifier = '' for free fns, 'Type' for inherent impls, 'Trait for Type' for trait impls."""
    items = facts.ast().get(file)
    if items is None:
        return
    yield from fns_in_items(items)


def fns_in_items(items):
    for _pref, it in all_items(items):
        if it["k"] == "Fn":
            if not is_test_item(it):
                yield "", it
        elif it["k"] == "Impl":
            q = it["self_ty"] if not it["trait"] else "%s for %s" % (it["trait"], it["self_ty"])
            for sub in it["items"]:
                if sub["k"] == "Fn":
                    yield q, sub
        elif it["k"] == "Trait":
            for sub in it["items"]:
                if sub["k"] == "Fn" and sub.get("body"):
                    yield "trait " + it["name"], sub


def find_fn(file, name, qual=None):
    """Find a function by name (and qualifier substring).  Returns node or None;
    raises if ambiguous."""
    hits = []
    for q, f in fns_in_file(file):
        if f["name"] == name and (qual is None or qual == q or (qual and qual in q)):
            hits.append((q, f))
    if not hits:
        return None
    if len(hits) > 1:
        exact = [h for h in hits if h[0] == qual]
        if len(exact) == 1:
            return exact[0][1]
        raise LookupError("ambiguous function %s in %s: %s" % (name, file, [h[0] for h in hits]))
    return hits[0][1]


def find_fn_anywhere(name, qual=None, files=None):
    hits = []
    for file in files or facts.ast().keys():
        for q, f in fns_in_file(file):
            if f["name"] == name and (qual is None or qual in q):
                hits.append((file, q, f))
    return hits


def find_item(file, kind, name):
    items = facts.ast().get(file)
    if items is None:
        return None
    for _p, it in all_items(items):
        if it["k"] == kind and it.get("name") == name:
            return it
    return None


def find_impl(file, self_ty, trait=None):
    items = facts.ast().get(file)
    out = []
    if items is None:
        return out
    for _p, it in all_items(items):
        if it["k"] == "Impl" and it["self_ty"].replace(" ", "") == self_ty.replace(" ", ""):
            t = it["trait"]
            if (trait is None and t is None) or (trait is not None and t is not None and t.replace(" ", "").split("<")[0].endswith(trait)):
                out.append(it)
    return out


def last(path):
    return path.rsplit("::", 1)[-1]


# ---------------------------------------------------------------- rendering
def render(e):
    """Canonical one-line text of an expression / pattern / block (no line info)."""
    if e is None:
        return ""
    if isinstance(e, list):
        return ", ".join(render(x) for x in e)
    k = e.get("k")
    if k == "Lit":
        v = e["value"]
        if e["lit"] == "str":
            return '"%s"' % v
        if e["lit"] == "char":
            return "'%s'" % v
        if e["lit"] == "bool":
            return "true" if v else "false"
        return str(v)
    if k == "Path":
        return e["path"]
    if k == "Call":
        return "%s(%s)" % (render(e["func"]), render(e["args"]))
    if k == "MethodCall":
        tf = ("::<%s>" % ", ".join(e["turbofish"])) if e.get("turbofish") else ""
        return "%s.%s%s(%s)" % (render(e["recv"]), e["method"], tf, render(e["args"]))
    if k == "Macro":
        return "%s!(%s)" % (e["name"], e["raw"])
    if k == "Binary":
        return "(%s %s %s)" % (render(e["l"]), e["op"], render(e["r"]))
    if k == "Unary":
        return "%s%s" % (e["op"], render(e["e"]))
    if k == "Field":
        return "%s.%s" % (render(e["base"]), e["member"])
    if k == "Index":
        return "%s[%s]" % (render(e["base"]), render(e["index"]))
    if k == "Ref":
        return "&%s%s" % ("mut " if e["mut"] else "", render(e["e"]))
    if k == "If":
        s = "if %s %s" % (render(e["cond"]), render(e["then"]))
        if e["else"]:
            s += " else " + render(e["else"])
        return s
    if k == "Let":
        return "let %s = %s" % (render(e["pat"]), render(e["e"]))
    if k == "Match":
        return "match %s { %s }" % (render(e["scrut"]), " ".join("%s%s => %s," % (render(a["pat"]), (" if " + render(a["guard"])) if a["guard"] else "", render(a["body"])) for a in e["arms"]))
    if k == "Block":
        return "{ %s }" % " ".join(render(s) for s in e["stmts"])
    if k == "Local":
        s = "let %s" % render(e["pat"])
        if e["init"]:
            s += " = " + render(e["init"])
        if e["else"]:
            s += " else " + render(e["else"])
        return s + ";"
    if k == "ExprStmt":
        return render(e["e"]) + (";" if e["semi"] else "")
    if k == "ItemStmt":
        return "<item>"
    if k == "Closure":
        return "|%s| %s" % (render(e["inputs"]), render(e["body"]))
    if k == "Return":
        return "return %s" % render(e["e"])
    if k == "Break":
        return "break"
    if k == "Continue":
        return "continue"
    if k == "Try":
        return render(e["e"]) + "?"
    if k == "Assign":
        return "%s = %s" % (render(e["l"]), render(e["r"]))
    if k == "Struct":
        return "%s { %s%s }" % (e["path"], ", ".join("%s: %s" % (f["name"], render(f["e"])) for f in e["fields"]), (", .." + render(e["rest"])) if e["rest"] else "")
    if k == "Tuple":
        return "(%s)" % render(e["elems"])
    if k == "Array":
        return "[%s]" % render(e["elems"])
    if k == "Repeat":
        return "[%s; %s]" % (render(e["e"]), render(e["len"]))
    if k == "Range":
        return "%s..%s%s" % (render(e["from"]), "=" if e["inclusive"] else "", render(e["to"]))
    if k == "Cast":
        return "%s as %s" % (render(e["e"]), e["ty"])
    if k == "While":
        return "while %s %s" % (render(e["cond"]), render(e["body"]))
    if k == "For":
        return "for %s in %s %s" % (render(e["pat"]), render(e["iter"]), render(e["body"]))
    if k == "Loop":
        return "loop %s" % render(e["body"])
    # patterns
    if k == "PIdent":
        return ("ref " if e["by_ref"] else "") + ("mut " if e["mut"] else "") + e["name"] + ((" @ " + render(e["sub"])) if e["sub"] else "")
    if k == "PWild":
        return "_"
    if k == "PRest":
        return ".."
    if k == "PLit":
        return render(e["lit"])
    if k == "PPath":
        return e["path"]
    if k == "PTupleStruct":
        return "%s(%s)" % (e["path"], render(e["elems"]))
    if k == "PStruct":
        inner = ", ".join(f["name"] if f["shorthand"] else "%s: %s" % (f["name"], render(f["pat"])) for f in e["fields"])
        return "%s { %s%s }" % (e["path"], inner, (", .." if inner else "..") if e["rest"] else "")
    if k == "PTuple":
        return "(%s)" % render(e["elems"])
    if k == "PSlice":
        return "[%s]" % render(e["elems"])
    if k == "POr":
        return " | ".join(render(c) for c in e["cases"])
    if k == "PRef":
        return "&" + render(e["pat"])
    if k == "PType":
        return "%s: %s" % (render(e["pat"]), e["ty"])
    if k in ("Other", "POther", "PRange"):
        return e.get("raw", "?")
    if k == "Arm":
        return "%s => %s" % (render(e["pat"]), render(e["body"]))
    return "<%s>" % k


def strip(e):
    """Peel references, derefs, clones, parens, single-expression blocks."""
    while is_node(e):
        k = e["k"]
        if k == "Ref":
            e = e["e"]
        elif k == "Unary" and e["op"] == "*":
            e = e["e"]
        elif k == "MethodCall" and e["method"] in ("clone", "to_owned", "as_ref", "borrow", "as_str", "to_string", "into", "iter", "as_slice") and not e["args"]:
            e = e["recv"]
        elif k == "Block" and len(e["stmts"]) == 1 and e["stmts"][0]["k"] == "ExprStmt" and not e["stmts"][0]["semi"]:
            e = e["stmts"][0]["e"]
        elif k == "Call" and e["func"]["k"] == "Path" and last(e["func"]["path"]) in ("Box::new",) and len(e["args"]) == 1:
            e = e["args"][0]
        elif k == "Call" and e["func"]["k"] == "Path" and e["func"]["path"] in ("Box::new", "String::from") and len(e["args"]) == 1:
            e = e["args"][0]
        else:
            break
    return e


def block_tail(b):
    """The value expression of a block (None if it ends in `;`)."""
    if b is None or b.get("k") != "Block" or not b["stmts"]:
        return None
    s = b["stmts"][-1]
    if s["k"] == "ExprStmt" and not s["semi"]:
        return s["e"]
    return None


def pat_bindings(p):
    """Names bound by a pattern."""
    out = []
    for n in walk(p):
        if n["k"] == "PIdent":
            out.append(n["name"])
        elif n["k"] == "PStruct":
            for f in n["fields"]:
                if f["shorthand"] and f["pat"]["k"] != "PIdent":
                    out.append(f["name"])
    return out


def pat_paths(p):
    """Constructor paths named by a pattern (or-pattern flattened); PIdent with an
    upper-case initial and no sub-pattern counts as a unit-variant path."""
    if p["k"] == "POr":
        out = []
        for c in p["cases"]:
            out += pat_paths(c)
        return out
    if p["k"] in ("PPath", "PTupleStruct", "PStruct"):
        return [p["path"]]
    if p["k"] == "PIdent" and p["name"][:1].isupper() and not p["sub"]:
        return [p["name"]]
    if p["k"] == "PRef":
        return pat_paths(p["pat"])
    if p["k"] == "PWild":
        return ["_"]
    if p["k"] == "PIdent":
        return ["_"]  # binding: catches everything
    if p["k"] == "PLit":
        return [render(p["lit"])]
    return ["?" + p["k"]]


def idents(e):
    """Set of single-segment path names used in an expression."""
    s = set()
    for n in walk(e):
        if n["k"] == "Path" and "::" not in n["path"]:
            s.add(n["path"])
        elif n["k"] == "Macro" and not n.get("parsed"):
            # unparsed macro: fall back to tokens
            import re

            for t in re.findall(r"[A-Za-z_][A-Za-z0-9_]*", n["raw"]):
                s.add(t)
        elif n["k"] == "Struct":
            for f in n["fields"]:
                if f["shorthand"]:
                    s.add(f["name"])
    return s


def method_calls(e, name=None):
    for n in walk(e):
        if n["k"] == "MethodCall" and (name is None or n["method"] == name):
            yield n


def calls(e, name=None):
    """Free/associated function calls; name matches the last path segment(s)."""
    for n in walk(e):
        if n["k"] == "Call" and n["func"]["k"] == "Path":
            p = n["func"]["path"]
            if name is None or p == name or p.endswith("::" + name):
                yield n


def macros(e, name=None):
    for n in walk(e):
        if n["k"] == "Macro" and (name is None or last(n["name"]) == name):
            yield n


def match_on(fn_or_expr, pred=None):
    """All Match nodes (optionally whose scrutinee satisfies pred(render(scrut)))."""
    for n in walk(fn_or_expr):
        if n["k"] == "Match" and (pred is None or pred(render(n["scrut"]))):
            yield n


def site(file, node):
    ln = node.get("line", 0)
    return (file, int(ln) if isinstance(ln, float) else ln)


def fn_params(fn):
    out = []
    for i in fn["sig"]["inputs"]:
        if i.get("self"):
            out.append(("self", "Self"))
        else:
            names = pat_bindings(i["pat"])
            out.append((names[0] if names else "_", i["ty"]))
    return out


# ---------------------------------------------------------------- helper inlining
def _simple_arg(a):
    a = strip(a)
    if a["k"] in ("Path", "Lit"):
        return True
    if a["k"] == "Field":
        return _simple_arg(a["base"])
    if a["k"] == "MethodCall" and not a["args"]:
        return _simple_arg(a["recv"])  # getters and views of a place: `self.primary()`, `xs.iter()`
    return False


def inline_helpers(fn, file, exclude=(), max_rounds=2):
    """Copy of `fn` in which calls of private helpers of the same file are replaced by the callee's body:
    free functions `h(a, b)` and methods `x.h(a)` / `Self::h(x, a)` / `Type::h(x, a)` whose name is defined once in the
    file.  Parameters are substituted by the argument expressions when these are plain places (names, fields, references
    to them, getters on them) and bound by a `let` otherwise.  The callee is first brought to expression form (early
    returns in tail position folded into the value); callees that still contain `return` / `?` or recursion are left
    alone, except that `h(..)?` with a callee whose every result is `Ok(v)` / `Some(v)` or an early error is inlined
    with the wrapper removed.  Extracting part of a function into a private helper therefore does not change what a
    rule sees."""
    import copy

    defs = {}
    counts = {}
    for q, f in (fns_in_items(file) if isinstance(file, list) else fns_in_file(file)):
        if not f.get("body") or q.startswith("trait "):
            continue
        counts[f["name"]] = counts.get(f["name"], 0) + 1
        defs[f["name"]] = (q, f)
    helpers = {n: qf for n, qf in defs.items() if counts[n] == 1 and n != fn["name"] and n not in exclude and qf[1].get("vis") != "pub"}
    out = copy.deepcopy(fn)

    def prepared(h):
        """expression form of the helper, or None when it cannot be inlined as an expression"""
        body = simplify_body(h["body"])
        for n in walk(body):
            if n["k"] == "Call" and n["func"]["k"] == "Path" and last(n["func"]["path"]) == h["name"]:
                return None, False
            if n["k"] == "MethodCall" and n["method"] == h["name"]:
                return None, False
        has_exit = any(n["k"] in ("Return", "Try") for n in walk(body))
        return body, has_exit

    def substitute(body, mapping):
        def rec(n):
            if isinstance(n, list):
                return [rec(x) for x in n]
            if not isinstance(n, dict):
                return n
            if n.get("k") == "Path" and n["path"] in mapping:
                return copy.deepcopy(mapping[n["path"]])
            if n.get("k") == "Macro" and isinstance(n.get("raw"), str):
                # identifiers captured by a format string (`"{name}.{version}"`) are renamed with the parameter
                m = {k: rec(v) for k, v in n.items()}
                raw = n["raw"]
                for pn_, a_ in mapping.items():
                    a_s = strip(a_)
                    while a_s.get("k") in ("Ref", "Unary") and a_s.get("e") is not None:
                        a_s = strip(a_s["e"])
                    if a_s.get("k") == "Path" and re.fullmatch(r"\w+", a_s["path"]):
                        raw = re.sub(r"\{%s(?=[}:])" % re.escape(pn_), "{" + a_s["path"], raw)
                m["raw"] = raw
                return m
            if n.get("k") == "Struct":
                m = {k: rec(v) for k, v in n.items() if k != "fields"}
                m["fields"] = []
                for f in n["fields"]:
                    f2 = {k: rec(v) for k, v in f.items()}
                    if f.get("shorthand") and f["name"] in mapping:
                        f2["shorthand"] = False
                    m["fields"].append(f2)
                return m
            return {k: rec(v) for k, v in n.items()}

        return rec(body)

    def unwrap_tails(e):
        """value of a Result/Option-returning body used as `h(..)?`: `Ok(v)` / `Some(v)` leaves become v, `Err(e)` /
        `None` leaves become `return Err(e)` / `return None`; None when a leaf is neither"""
        e0 = e
        k = e.get("k")
        if k == "Block":
            if not e["stmts"]:
                return None
            t = block_tail(e)
            if t is None:
                return None
            nt = unwrap_tails(t)
            if nt is None:
                return None
            ne = dict(e)
            ne["stmts"] = e["stmts"][:-1] + [dict(e["stmts"][-1], e=nt)]
            return ne
        if k == "If" and e.get("else") is not None:
            a, b_ = unwrap_tails(e["then"]), unwrap_tails(e["else"])
            if a is None or b_ is None:
                return None
            return dict(e, then=a, **{"else": b_})
        if k == "Match":
            arms = []
            for a in e["arms"]:
                nb = unwrap_tails(a["body"])
                if nb is None:
                    return None
                arms.append(dict(a, body=nb))
            return dict(e, arms=arms)
        s_ = strip(e)
        if s_.get("k") == "Call" and render(s_["func"]) in ("Ok", "Some") and len(s_["args"]) == 1:
            return s_["args"][0]
        if (s_.get("k") == "Call" and render(s_["func"]) == "Err") or (s_.get("k") == "Path" and s_["path"] == "None"):
            return {"k": "Return", "line": e0.get("line", 0), "e": s_}
        if s_.get("k") in ("Return", "Macro"):
            return s_
        return None

    def build(h, args, line, tried=False):
        body, has_exit = prepared(h)
        if body is None:
            return None
        if has_exit and not tried:
            return None
        if tried:
            # `h(..)?`: early exits of the helper leave the caller as well, exactly like the `?` on the call
            body = unwrap_tails(body)
            if body is None:
                return None
        ins = h["sig"]["inputs"]
        if len(ins) != len(args):
            return None
        mapping, lets = {}, []
        pnames = []
        for i_, a in zip(ins, args):
            if i_.get("self"):
                pn = "self"
            elif i_["pat"]["k"] == "PIdent":
                pn = i_["pat"]["name"]
            else:
                return None
            pnames.append(pn)
            if _simple_arg(a):
                mapping[pn] = strip(a)
            else:
                tmp = "%s__arg" % pn
                lets.append({"k": "Local", "line": line, "pat": {"k": "PIdent", "line": line, "name": tmp, "by_ref": False, "mut": False, "sub": None}, "init": a, "else": None})
                mapping[pn] = {"k": "Path", "line": line, "path": tmp}
        rebound = {b["name"] for b in walk(body) if b["k"] == "PIdent"} & set(pnames)
        body = copy.deepcopy(body)
        for rb in rebound:
            _rename_binding(body, rb, rb + "__inner")
        body = substitute(body, mapping)
        # the inlined code sits at the call site: give its nodes the call's position (in their own order), so that
        # order-of-appearance questions are answered as if the code had been written there
        cnt = [0]

        def relocate(n):
            if isinstance(n, list):
                for x in n:
                    relocate(x)
            elif isinstance(n, dict):
                if "line" in n:
                    cnt[0] += 1
                    n["line"] = line + cnt[0] * 1e-6
                    if "mline" in n:
                        n["mline"] = n["line"]
                for v in n.values():
                    if isinstance(v, (dict, list)):
                        relocate(v)

        relocate(body)
        if lets:
            body = {"k": "Block", "line": line, "stmts": lets + [{"k": "ExprStmt", "line": line, "e": body, "semi": False}]}
        return body

    for _round in range(max_rounds):
        changed = False

        def rec(n):
            nonlocal changed
            if isinstance(n, list):
                return [rec(x) for x in n]
            if not isinstance(n, dict):
                return n
            n = {k: rec(v) for k, v in n.items()}
            k = n.get("k")
            if k == "Try" and isinstance(n.get("e"), dict):
                c = n["e"]
                while c.get("k") == "Paren":
                    c = c["e"]
                r = None
                if c.get("k") == "Call" and c["func"]["k"] == "Path" and last(c["func"]["path"]) in helpers and "::" not in c["func"]["path"]:
                    r = build(helpers[last(c["func"]["path"])][1], c["args"], c.get("line", 0), tried=True)
                elif c.get("k") == "MethodCall" and c["method"] in helpers and helpers[c["method"]][0] and helpers[c["method"]][1]["sig"]["inputs"] and helpers[c["method"]][1]["sig"]["inputs"][0].get("self"):
                    r = build(helpers[c["method"]][1], [c["recv"]] + c["args"], c.get("line", 0), tried=True)
                if r is not None:
                    changed = True
                    return r
            if k == "Call" and n["func"]["k"] == "Path":
                nm = last(n["func"]["path"])
                if nm in helpers and ("::" not in n["func"]["path"] or n["func"]["path"].split("::")[0] in ("Self",) or n["func"]["path"].split("::")[0] == helpers[nm][0].split(" for ")[-1].split("<")[0]):
                    r = build(helpers[nm][1], n["args"], n.get("line", 0))
                    if r is not None:
                        changed = True
                        return r
            if k == "MethodCall" and n["method"] in helpers and helpers[n["method"]][0]:
                h = helpers[n["method"]][1]
                if h["sig"]["inputs"] and h["sig"]["inputs"][0].get("self"):
                    r = build(h, [n["recv"]] + n["args"], n.get("line", 0))
                    if r is not None:
                        changed = True
                        return r
            return n

        out["body"] = rec(out["body"])
        if not changed:
            break
    flatten_block_lets(out["body"])
    return out


def flatten_block_lets(body):
    """`let x = { s1; s2; v };` reads as `s1; s2; let x = v;` - and when v is a local declared inside the block, that
    local simply *is* x.  (This is the shape an inlined helper leaves behind; after it, the caller looks the way it did
    before the helper was extracted.)  Locals of the inner block whose names are used later in the outer block are
    given a suffix first, so nothing is captured."""
    import alpha

    for blk in [n for n in walk(body) if n["k"] == "Block"]:
        changed = True
        guard = 0
        while changed and guard < 20:
            changed = False
            guard += 1
            stmts = blk["stmts"]
            for i, s_ in enumerate(stmts):
                if s_.get("k") != "Local" or s_.get("else") is not None or s_.get("init") is None:
                    continue
                p = s_["pat"]
                if p["k"] == "PType":
                    p = p["pat"]
                ib = s_["init"]
                while ib.get("k") == "Paren":
                    ib = ib["e"]
                if p["k"] != "PIdent" or ib.get("k") != "Block" or not ib["stmts"]:
                    continue
                tail = block_tail(ib)
                if tail is None:
                    continue
                inner = ib["stmts"][:-1]
                if any(x["k"] in ("Break", "Continue") for st in inner for x in walk(st)):
                    pass
                declared = [b["name"] for st in inner if st["k"] == "Local" for b in walk(st["pat"]) if b["k"] == "PIdent"]
                later = stmts[i + 1:]
                later_names = {x["path"] for st in later for x in walk(st) if x["k"] == "Path"}
                t = strip(tail)
                tail_var = t["path"] if t["k"] == "Path" and t["path"] in declared else None
                ren = {d: d + "__h" for d in declared if d in later_names and d != tail_var and d != p["name"]}
                if ren:
                    for st in inner:
                        alpha.rename(st, ren)
                    alpha.rename(tail, ren)
                if tail_var is not None:
                    for st in inner:
                        alpha.rename(st, {tail_var: p["name"]})
                        if st["k"] == "Local":
                            for b in walk(st["pat"]):
                                if b["k"] == "PIdent" and b["name"] == p["name"]:
                                    b["mut"] = bool(p.get("mut")) or bool(b.get("mut"))
                    blk["stmts"] = stmts[:i] + inner + later
                else:
                    new_let = dict(s_)
                    new_let["init"] = tail
                    blk["stmts"] = stmts[:i] + inner + [new_let] + later
                changed = True
                break


def _rename_binding(body, name, new):
    """rename the binding `name` introduced inside body (for / let / closure / pattern) and its uses *within the scope of
    that binding*; uses before the rebinding keep referring to the outer name"""
    def rename_all(n):
        if isinstance(n, list):
            for x in n:
                rename_all(x)
        elif isinstance(n, dict):
            if n.get("k") == "Path" and n["path"] == name:
                n["path"] = new
            elif n.get("k") == "PIdent" and n["name"] == name:
                n["name"] = new
            for v in n.values():
                if isinstance(v, (dict, list)):
                    rename_all(v)

    def binds(p):
        return any(b["k"] == "PIdent" and b["name"] == name for b in walk(p))

    def rec(n):
        if isinstance(n, list):
            for x in n:
                rec(x)
            return
        if not isinstance(n, dict):
            return
        k = n.get("k")
        if k == "For" and binds(n["pat"]):
            rec(n["iter"])
            rename_all(n["pat"])
            rename_all(n["body"])
            return
        if k == "Closure" and any(binds(p) for p in n.get("inputs", [])):
            rename_all(n["inputs"])
            rename_all(n["body"])
            return
        if k == "Block":
            for i, s in enumerate(n["stmts"]):
                if s.get("k") == "Local" and binds(s["pat"]):
                    if s.get("init"):
                        rec(s["init"])
                    rename_all(s["pat"])
                    rename_all(n["stmts"][i + 1:])
                    return
                rec(s)
            return
        if k == "Arm" and binds(n["pat"]):
            rename_all(n)
            return
        if k == "If" and n["cond"].get("k") == "Let" and binds(n["cond"]["pat"]):
            rec(n["cond"]["e"])
            rename_all(n["cond"]["pat"])
            rename_all(n["then"])
            if n.get("else"):
                rec(n["else"])
            return
        for v in n.values():
            if isinstance(v, (dict, list)):
                rec(v)

    rec(body)


def inline_lets(e, body):
    """`e` with every name that is an immutable simple `let` of `body` replaced by its definition (deeply)"""
    from pathcond import _subst

    env = {}
    for n in walk(body):
        if n["k"] == "Local" and n["pat"]["k"] == "PIdent" and n["init"] is not None and not n["pat"].get("mut") and n.get("else") is None:
            env[n["pat"]["name"]] = n["init"]
    return _subst(e, env) if env else e


# ---------------------------------------------------------------- expression form of a function body
def simplify_body(body):
    """A copy of a function body brought to *expression form* for the small abstract interpreters:
      * immutable `let x = <pure expression>` is substituted into its scope and dropped (scoping and shadowing
        respected; kept when a later statement may mutate a place the definition mentions),
      * `match c { true => A, false => B }` (or `_` for the second arm) becomes `if c { A } else { B }`,
      * `if c { return X; } REST` becomes `if c { X } else { REST }` (early returns folded into the value),
      * a trailing `return X;` becomes the tail expression X, blocks with a single tail expression are unwrapped.
    Behaviour-preserving clean-ups of such functions (naming a sub-expression, early return vs if/else, match on a
    bool) all reach the same form."""
    import copy

    from pathcond import _mutated_names, _pure, _subst

    def diverges_with_return(b):
        """block consisting of `return X;` (possibly as tail) -> X, else None"""
        if b.get("k") != "Block" or len(b["stmts"]) != 1:
            return None
        s = b["stmts"][0]
        e = s["e"] if s["k"] == "ExprStmt" else None
        if e is not None and e["k"] == "Return" and e.get("e") is not None:
            return e["e"]
        return None

    def expr(e, env, tail=False):
        if isinstance(e, list):
            return [expr(x, env) for x in e]
        if not isinstance(e, dict):
            return e
        k = e.get("k")
        if k == "Block":
            return block(e, env, tail)
        if k == "If" and tail:
            n = dict(e)
            n["cond"] = expr(e["cond"], env)
            n["then"] = block(e["then"], env, True)
            n["else"] = expr(e["else"], env, True) if e.get("else") is not None else None
            return n
        if k == "Closure":
            bound = {x["name"] for p in e.get("inputs", []) for x in walk(p) if x["k"] == "PIdent"}
            env = {a: b for a, b in env.items() if a not in bound}
        if k == "Path" and e["path"] in env:
            return copy.deepcopy(strip(env[e["path"]]))
        if k == "Match":
            arms = e["arms"]
            pats = [render(a["pat"]).strip() for a in arms]
            if len(arms) == 2 and not arms[0].get("guard") and not arms[1].get("guard") and pats[0] in ("true", "false") and pats[1] in ("true", "false", "_") and pats[0] != pats[1]:
                t, f = (arms[0], arms[1]) if pats[0] == "true" else (arms[1], arms[0])
                mk = lambda x: x if x.get("k") == "Block" else {"k": "Block", "line": x.get("line", 0), "stmts": [{"k": "ExprStmt", "line": x.get("line", 0), "e": x, "semi": False}]}
                return {"k": "If", "line": e.get("line", 0), "cond": expr(e["scrut"], env), "then": block(mk(t["body"]), env, tail), "else": block(mk(f["body"]), env, tail)}
            out = dict(e)
            out["scrut"] = expr(e["scrut"], env)
            out["arms"] = []
            for a in arms:
                bound = {x["name"] for x in walk(a["pat"]) if x["k"] == "PIdent"}
                env2 = {p: q for p, q in env.items() if p not in bound}
                a2 = dict(a)
                a2["guard"] = expr(a["guard"], env2) if a.get("guard") else a.get("guard")
                a2["body"] = expr(a["body"], env2, tail)
                out["arms"].append(a2)
            return out
        if k == "Struct":
            n = dict(e)
            n["fields"] = []
            for f in e["fields"]:
                f2 = dict(f)
                f2["e"] = expr(f["e"], env)
                if f.get("shorthand") and f["name"] in env:
                    f2["shorthand"] = False
                n["fields"].append(f2)
            if e.get("rest"):
                n["rest"] = expr(e["rest"], env)
            return n
        return {a: expr(b, env) for a, b in e.items()}

    def block(b, env, tail=False):
        env = dict(env)
        stmts = list(b["stmts"])
        out = []
        i = 0
        while i < len(stmts):
            s = stmts[i]
            rest = stmts[i + 1:]
            if s["k"] == "Local":
                if s["pat"]["k"] == "PType":  # `let x: T = ..` is `let x = ..` here
                    s = dict(s)
                    s["pat"] = s["pat"]["pat"]
                init = expr(s["init"], env) if s.get("init") is not None else None
                bound = {x["name"] for x in walk(s["pat"]) if x["k"] == "PIdent"}
                if s["pat"]["k"] == "PIdent" and init is not None and not s["pat"].get("mut") and s.get("else") is None and _pure(init):
                    free = {x["path"].split("::")[0] for x in walk(init) if x["k"] == "Path"}
                    mutated = set()
                    for r in rest:
                        mutated |= _mutated_names(r)
                    if not (free & mutated) and s["pat"]["name"] not in mutated:
                        env[s["pat"]["name"]] = init
                        i += 1
                        continue
                # irrefutable destructuring of a place: `let Report { category, .. } = self;` binds projections
                if s["pat"]["k"] in ("PStruct", "PTuple", "PRef") and init is not None and s.get("else") is None and strip(init)["k"] in ("Path", "Field") and all(not x.get("mut") for x in walk(s["pat"]) if x["k"] == "PIdent") and not (s["pat"]["k"] == "PTuple" and strip(init)["k"] == "Tuple"):
                    from terms import bind_pattern

                    # the bindings are projections of the place itself (aliases), so later mutation through them is
                    # mutation of the place: substituting the projection is exact
                    bind_pattern(s["pat"], strip(init), env)
                    i += 1
                    continue
                # `let (a, b) = (x, y);` element-wise
                if s["pat"]["k"] == "PTuple" and init is not None and strip(init)["k"] == "Tuple" and len(strip(init)["elems"]) == len(s["pat"]["elems"]) and s.get("else") is None and all(x["k"] == "PIdent" and not x.get("mut") for x in s["pat"]["elems"]) and _pure(init):
                    mutated = set()
                    for r in rest:
                        mutated |= _mutated_names(r)
                    free = {x["path"].split("::")[0] for x in walk(init) if x["k"] == "Path"}
                    if not (free & mutated) and not ({x["name"] for x in s["pat"]["elems"]} & mutated):
                        for x, v_ in zip(s["pat"]["elems"], strip(init)["elems"]):
                            env[x["name"]] = v_
                        i += 1
                        continue
                for nm in bound:
                    env.pop(nm, None)
                s2 = dict(s)
                s2["init"] = init
                if s.get("else") is not None:
                    s2["else"] = expr(s["else"], env)
                out.append(s2)
                i += 1
                continue
            if s["k"] == "ExprStmt":
                e = s["e"]
                # `if c { return X; }` followed by the rest of the block
                if e["k"] == "If" and e.get("else") is None and rest and tail:
                    x = diverges_with_return(e["then"])
                    if x is not None:
                        then_b = {"k": "Block", "line": e.get("line", 0), "stmts": [{"k": "ExprStmt", "line": 0, "e": x, "semi": False}]}
                        rest_b = {"k": "Block", "line": e.get("line", 0), "stmts": rest}
                        folded = {"k": "If", "line": e.get("line", 0), "cond": expr(e["cond"], env), "then": block(then_b, env, True), "else": block(rest_b, env, True)}
                        out.append({"k": "ExprStmt", "line": s.get("line", 0), "e": folded, "semi": False})
                        i = len(stmts)
                        continue
                if e["k"] == "Return" and e.get("e") is not None and not rest and tail:
                    out.append({"k": "ExprStmt", "line": s.get("line", 0), "e": expr(e["e"], env), "semi": False})
                    i += 1
                    continue
                s2 = dict(s)
                s2["e"] = expr(e, env, tail and not rest and not s.get("semi"))
                out.append(s2)
                i += 1
                continue
            out.append(s)
            i += 1
        nb = dict(b)
        nb["stmts"] = out
        return nb

    return block(copy.deepcopy(body), {}, True)


def struct_literal_fields(fn, struct_name):
    """[{field: rendered expression}] for every literal of `struct_name` in the function, read on the expression form
    of the body (lets inlined, shorthand expanded)"""
    body = simplify_body(fn["body"])
    out = []
    for n in walk(body):
        if n["k"] == "Struct" and last(n["path"]) in (struct_name, "Self"):
            out.append({f["name"]: render(strip(f["e"])).replace(" ", "") for f in n["fields"]})
    return out


def result_expr(fn):
    """the value a function returns, read on its expression form (immutable pure lets inlined, a trailing `return x;`
    taken as the tail): `let total = self.written; total` reads as `self.written`"""
    body = fn["body"] if "body" in fn and fn.get("k") != "Block" else fn
    return block_tail(simplify_body(body))


def truth_paths(fn):
    """For a boolean function: the ways it can return something other than `false`, as a list of
    (fact texts on the path, value text).  `matches!(x, P if g)` as the value is read as the facts `let P = x`, `g` and
    the value `true`, so `matches!(..)`, `match .. { P => true, _ => false }` and `if let P = .. { true } else { false }`
    give the same single truth path."""
    from pathcond import IFLET, enumerate_paths, fact_str, split_cond

    body = simplify_body(fn["body"])
    out = []
    for conds, atoms, ex in enumerate_paths(body):
        if ex in ("panic",):
            continue
        val = None
        for a in reversed(atoms):
            if a.get("k") == "ItemStmt":
                continue
            val = a["e"] if a.get("k") == "Return" else a
            break
        if val is None:
            continue
        v = strip(val)
        facts_ = list(conds)
        if v["k"] == "Macro" and v["name"].endswith("matches") and v.get("parsed") and v.get("pat") is not None:
            facts_.append(IFLET(v["pat"], v["args"][0], True))
            if v.get("guard"):
                facts_ += split_cond(v["guard"], True)
            vt = "true"
        else:
            vt = render(v).replace(" ", "")
        if vt == "false":
            continue
        out.append((sorted(fact_str(f).replace(" ", "") for f in facts_ if f[0] not in ("loop",)), vt))
    return out


def exists_form(fn):
    """For a boolean function of the shape "some element of C satisfies P": (collection text, predicate text with the
    element written `$x`), or None.  Recognised: `C.any(|x| P)` (with `.iter()` and friends dropped) as the result,
    and `for x in C { if P { return true; } } false`."""
    import copy

    def rename(e, var):
        e = copy.deepcopy(e)
        for n in walk(e):
            if n["k"] == "Path" and n["path"] == var:
                n["path"] = "$x"
        return render(strip(e)).replace(" ", "")

    def coll(e):
        e = strip(e)
        while e["k"] == "MethodCall" and e["method"] in ("iter", "iter_mut", "into_iter") and not e["args"]:
            e = strip(e["recv"])
        return render(e).replace(" ", "")

    body = simplify_body(fn["body"])
    stmts = [s for s in body["stmts"] if s["k"] != "ItemStmt"]
    t = block_tail(body)
    if len(stmts) == 1 and t is not None:
        t = strip(t)
        if t["k"] == "MethodCall" and t["method"] == "any" and len(t["args"]) == 1 and t["args"][0]["k"] == "Closure" and len(t["args"][0]["inputs"]) == 1:
            names = [b["name"] for b in walk(t["args"][0]["inputs"][0]) if b["k"] == "PIdent"]
            if len(names) == 1:
                return coll(t["recv"]), rename(t["args"][0]["body"], names[0])
    if len(stmts) == 2 and stmts[0]["k"] == "ExprStmt" and stmts[0]["e"]["k"] == "For" and t is not None and render(strip(t)) == "false":
        lp = stmts[0]["e"]
        names = [b["name"] for b in walk(lp["pat"]) if b["k"] == "PIdent"]
        inner = [s for s in lp["body"]["stmts"] if s["k"] != "ItemStmt"]
        if len(names) == 1 and len(inner) == 1 and inner[0]["k"] == "ExprStmt" and inner[0]["e"]["k"] == "If" and inner[0]["e"].get("else") is None:
            i = inner[0]["e"]
            th = [s for s in i["then"]["stmts"]]
            if len(th) == 1 and th[0]["k"] == "ExprStmt" and th[0]["e"]["k"] == "Return" and th[0]["e"].get("e") is not None and render(strip(th[0]["e"]["e"])) == "true":
                return coll(lp["iter"]), rename(i["cond"], names[0])
    return None


def collection_form(fn):
    """For a function that builds a collection from another one: (source text, element text with `$x`, [filter texts
    with `$x`]) or None.  Recognised on the expression form:
      SRC.iter()..map(|x| E).filter(|x| P)..collect()     (cloned / copied / iter adaptors are transparent)
      let mut out = <empty>; for x in SRC { [if P] { out.push|insert(E); } } out
    so that a comprehension written as an iterator chain or as a loop reads the same."""
    import copy

    def rn(e, var):
        e = copy.deepcopy(e)
        for n in walk(e):
            if n["k"] == "Path" and n["path"] == var:
                n["path"] = "$x"
        return render(strip(e)).replace(" ", "")

    def src(e):
        e = strip(e)
        while e["k"] == "MethodCall" and e["method"] in ("iter", "iter_mut", "into_iter", "cloned", "copied") and not e["args"]:
            e = strip(e["recv"])
        return render(e).replace(" ", "")

    body = simplify_body(fn["body"])
    stmts = [s for s in body["stmts"] if s["k"] != "ItemStmt"]
    t = block_tail(body)
    if t is None:
        return None
    t = strip(t)
    # iterator chain
    if len(stmts) == 1 and t["k"] == "MethodCall" and t["method"] == "collect":
        elem, filters = "$x", []
        e = strip(t["recv"])
        stages = []
        while e["k"] == "MethodCall" and e["method"] in ("map", "filter", "cloned", "copied", "iter", "iter_mut", "into_iter"):
            stages.append(e)
            e = strip(e["recv"])
        for st in reversed(stages):
            if st["method"] in ("map", "filter") and st["args"] and st["args"][0]["k"] == "Closure" and len(st["args"][0]["inputs"]) == 1:
                names = [b["name"] for b in walk(st["args"][0]["inputs"][0]) if b["k"] == "PIdent"]
                if len(names) != 1:
                    return None
                txt = rn(st["args"][0]["body"], names[0])
                if st["method"] == "map":
                    elem = txt.replace("$x", elem) if elem != "$x" else txt
                else:
                    filters.append(txt.replace("$x", elem) if elem != "$x" else txt)
            elif st["method"] in ("map", "filter"):
                return None
        return render(e).replace(" ", ""), elem, filters
    # loop form
    if len(stmts) == 3 and stmts[0]["k"] == "Local" and stmts[0]["pat"]["k"] == "PIdent" and stmts[1]["k"] == "ExprStmt" and stmts[1]["e"]["k"] == "For" and t["k"] == "Path" and t["path"] == stmts[0]["pat"]["name"]:
        out = stmts[0]["pat"]["name"]
        if render(strip(stmts[0]["init"])).replace(" ", "").split("::<")[0] not in ("HashSet::new()", "Vec::new()", "ReportCollection::new()", "vec![]", "Vec::default()", "HashSet::default()", "BTreeSet::new()", "IndexSet::new()", "HashSet", "Vec") and not render(strip(stmts[0]["init"])).replace(" ", "").endswith("::new()"):
            return None
        lp = stmts[1]["e"]
        names = [b["name"] for b in walk(lp["pat"]) if b["k"] == "PIdent"]
        if len(names) != 1:
            return None
        from pathcond import conditions_to, fact_str

        adds = [m for m in walk(lp["body"]) if m["k"] == "MethodCall" and m["method"] in ("push", "insert") and render(strip(m["recv"])) == out]
        if len(adds) != 1 or [x for x in walk(lp["body"]) if x["k"] in ("Break", "Continue", "Return")]:
            return None
        filters = []
        for c in conditions_to(lp["body"], adds[0]) or []:
            if c[0] == "if" and c[2]:
                filters.append(rn(c[1], names[0]))
            else:
                return None
        return src(lp["iter"]), rn(adds[0]["args"][0], names[0]), filters
    return None


# ---------------------------------------------------------------- default view: unknown private helpers inlined
_VOCAB = None
EXTRA_VOCAB = {"fill_", "visit_", "remove_", "find_", "run_", "update_", "insert_", "ensure_", "is_phi", "new_phi", "into_", "produce_", "try_lift", "lift", "parse_", "preprocess", "open_file", "check_", "filter_by_", "main", "generate_cfg", "complete_basic_block", "separate_", "split_", "add_", "include_", "get_", "to_sarif", "write_", "reports_written", "serialize_", "as_bool", "val", "modulus", "comparable_element", "normalize", "mask", "bit_representation", "constant_true", "constant_false", "shift_", "for_into_while", "assign_with_op_shortcut", "plusplus", "subsub", "fmt", "from_str", "prime", "cmp", "partial_cmp", "eq", "hash", "iter_", "inf", "compute_", "multi_step_taint", "single_step_taint", "taints_any", "primary_meta", "version_string", "format_expected"}


def vocabulary():
    """Identifiers the rules themselves mention (string literals of rules/*.py) plus the naming prefixes above: a
    function with such a name is something a rule may look for, so calls of it stay calls.  Any other private helper of
    a file is read as part of its callers - which is what it is when a refactoring has just factored it out."""
    global _VOCAB
    if _VOCAB is None:
        import glob
        import os
        import re

        lits = set()
        here = os.path.dirname(os.path.abspath(__file__))
        for f in glob.glob(os.path.join(here, "*.py")):
            src = open(f, encoding="utf-8").read()
            for m in re.finditer(r'"([^"\\\n]*)"|\'([^\'\\\n]*)\'', src):
                t = m.group(1) or m.group(2) or ""
                lits.update(re.findall(r"[A-Za-z_][A-Za-z_0-9]*", t))
        _VOCAB = lits
    return _VOCAB


def is_vocabulary(name):
    v = vocabulary()
    if name in v:
        return True
    return any(name.startswith(p) for p in EXTRA_VOCAB) or any(name.startswith(p) for p in v if p.endswith("_") and len(p) > 3)


def inline_unknown_helpers(items):
    """load-time pass over one file (facts.ast): in every function, calls of private helpers of the same file whose name
    is not part of the rules' vocabulary are replaced by the helper's body"""
    names = [f["name"] for _q, f in fns_in_items(items) if f.get("body")]
    unknown = {n for n in names if not is_vocabulary(n)}
    if not unknown:
        return
    exclude = tuple(n for n in names if n not in unknown)
    for _q, f in list(fns_in_items(items)):
        if not f.get("body"):
            continue
        # only bother when the body mentions an unknown helper
        mentioned = False
        for n in walk(f["body"]):
            if (n["k"] == "Call" and n["func"]["k"] == "Path" and last(n["func"]["path"]) in unknown) or (n["k"] == "MethodCall" and n["method"] in unknown):
                mentioned = True
                break
        if not mentioned:
            continue
        g = inline_helpers(f, items, exclude=exclude)
        f["body"] = g["body"]
