"""C14 SSA form is valid and preserves which assignment each read sees."""
import re

import a10
import facts
import grammar
from astlib import calls, find_fn, fns_in_file, last, method_calls, pat_paths, render, site, strip, walk
from pathcond import conditions_to, fact_str, facts_str, let_env
import sgrep

TITLE = "SSA"
LEVEL_TEXT = (
    "phi insertion is iterated over the dominance frontier of every writing block with an unconditional re-queue; renaming runs"
    " block -> successors' phis -> dominator children with paired scopes; pipeline order of into_ssa; phis are prepended and matched"
    " by the full variable name; only locals are versioned; version keys are injective in (name, suffix) and shared by all"
    " accessors; every child expression is renamed; every version gets a declaration; the version environment evaluated over enter / leave / assign / read sequences (a read sees the innermost live assignment only).; the generic driver (phi insertion, renaming worker) and the provided block methods are evaluated on model graphs against the textbook definitions (iterated dominance frontier; every edge hands the phi the definition reaching the end of its source); no provided method of the SSA traits is overridden. No return leaves an arm of the renaming traversal before every child expression was handed to the visitor (path rule)."
)
NOT_DECIDED = "reaching-definition correctness per path (that each read names the version assigned last on every path)."
TRUSTED = ["syn parser", "identifier alphabet read from the grammar"]

SSA = "program_structure/src/static_single_assignment/mod.rs"
TR = "program_structure/src/static_single_assignment/traits.rs"
SI = "program_structure/src/control_flow_graph/ssa_impl.rs"
CFG = "program_structure/src/control_flow_graph/cfg.rs"
IR = "program_structure/src/intermediate_representation/ir.rs"


def line_of(n):
    return n.get("mline", n.get("line", 0))


def rule_phi_insertion(ctx):
    R = "C14.1"
    ctx.rule(R, "phi insertion: the work list starts with every block; for every block that writes variables, every block of its dominance frontier gets a phi for every written variable it lacks, and is re-queued whenever a phi was added (iterated dominance frontier); renaming: current block, then the phis of every successor, then the dominator-tree children inside a paired scope")
    fn = find_fn(SSA, "insert_phi_statements")
    if fn is None:
        return ctx.missing(R, "insert_phi_statements")
    import c14ssa

    decided = [c14ssa.rule(ctx, R, part_) for part_ in ("phis", "renaming", "block-methods")]
    if all(decided):
        # the driver and the provided block methods are decided by evaluation on model graphs (rules/c14ssa.py); the shape
        # obligations below are the fallback for a driver that leaves the evaluator's subset
        return
    import alpha
    fn, miss_ = alpha.canon(fn, [("basic_blocks", "param", 0), ("dominator_tree", "param", 1), ("env", "param", 2),
                                 ("work_list", "let", "(0..basic_blocks.len()).collect()"),
                                 ("current_index", "whilelet", "work_list.pop()"),
                                 ("frontier_index", "forvar", "dominator_tree.get_dominance_frontier(current_index)"),
                                 ("frontier_block", "let", "&mut basic_blocks[frontier_index]", "optional")])
    if miss_:
        return ctx.missing(R, "insert_phi_statements/roles", "cannot identify %s" % miss_)
    # the set of written variables: the local whose definition reads `.variables_written()`
    for n_ in walk(fn["body"]):
        if n_["k"] == "Local" and n_["pat"]["k"] == "PIdent" and n_["init"] is not None and ".variables_written()" in render(n_["init"]).replace(" ", "") and n_["pat"]["name"] != "variables_written":
            alpha.rename(fn["body"], {n_["pat"]["name"]: "variables_written"})
    for n_ in walk(fn["body"]):
        if n_["k"] == "For" and render(strip(n_["iter"])) == "variables_written" and n_["pat"]["k"] == "PIdent" and n_["pat"]["name"] != "var":
            alpha.rename(fn["body"], {n_["pat"]["name"]: "var"})
    le = let_env(fn["body"])
    wl = le.get("work_list")
    ctx.check(R, "insert_phi_statements/work-list-starts-with-all-blocks", wl is not None and render(strip(wl)).replace(" ", "") in ("(0..basic_blocks.len()).collect()", "0..basic_blocks.len().collect()"), render(wl) if wl else "?", site(SSA, fn))
    wh = [n for n in walk(fn["body"]) if n["k"] == "While"]
    okw = len(wh) == 1 and render(wh[0]["cond"]).replace(" ", "") == "letSome(current_index)=work_list.pop()"
    ctx.check(R, "insert_phi_statements/loop-until-work-list-empty", okw, render(wh[0]["cond"]) if wh else "?", site(SSA, fn))
    ins = list(method_calls(fn["body"], "insert_phi_statement"))
    push = [p for p in method_calls(fn["body"], "push") if render(strip(p["recv"])) == "work_list"]
    if len(ins) != 1 or len(push) != 1:
        return ctx.bad(R, "insert_phi_statements/shape", "expected one insert_phi_statement and one work_list.push, found %d / %d" % (len(ins), len(push)), site(SSA, fn))
    ci = [c for c in (conditions_to(fn["body"], ins[0]) or [])]
    cp = [c for c in (conditions_to(fn["body"], push[0]) or [])]
    si = [fact_str(c).replace(" ", "") for c in ci]
    sp = [fact_str(c).replace(" ", "") for c in cp]
    want_tail = ["!variables_written.is_empty()", "forfrontier_indexindominator_tree.get_dominance_frontier(current_index)", "forvarin&variables_written", "!frontier_block.has_phi_statement(var)"]
    core_alt = ["!variables_written.is_empty()", "forfrontier_indexindominator_tree.get_dominance_frontier(current_index)", "forvarin&variables_written", "!basic_blocks[frontier_index].has_phi_statement(var)"]
    core = [s for s in si if not s.startswith("while") and not s.startswith("(letSome(current_index)")]
    ctx.check(R, "insert_phi_statements/phi-for-every-written-variable-in-every-frontier-block", core in (want_tail, core_alt), "insertion guarded by %s" % core, site(SSA, ins[0]))
    ctx.check(R, "insert_phi_statements/requeue-whenever-a-phi-was-added", sp == si, "work_list.push under %s, insertion under %s: a block that received a phi now defines the variable and must be processed again, unconditionally" % ([s for s in sp if s not in si], [s for s in si if s not in sp]), site(SSA, push[0]))
    ctx.check(R, "insert_phi_statements/requeue-the-frontier-block", render(strip(push[0]["args"][0])) == "frontier_index", render(push[0]), site(SSA, push[0]))
    vw = le.get("variables_written")
    # variables written by the *current* block
    txt = render(fn["body"]).replace(" ", "")
    envl = sgrep.lets(fn["body"])
    vwb = [b for _n, b in sgrep.find(fn["body"], "basic_blocks[__i].variables_written()", envl)]
    idxv = [b for _n, b in sgrep.find(fn["body"], "while let Some(__i) = work_list.pop() { __body }")] or [{"__i": "current_index"}]
    ctx.check(R, "insert_phi_statements/variables-of-the-current-block", any(b["__i"] == "current_index" for b in vwb) or any(b["__i"] in [x.get("__i") for x in idxv] for b in vwb), "the written variables must be those of the block just taken from the work list: %s" % vwb, site(SSA, fn))
    fb = [n for n in walk(fn["body"]) if n["k"] == "Local" and n["pat"]["k"] == "PIdent" and n["pat"]["name"] == "frontier_block"]
    ctx.check(R, "insert_phi_statements/frontier-block-lookup", (len(fb) == 1 and render(strip(fb[0]["init"])).replace(" ", "") == "basic_blocks[frontier_index]") or (not fb and render(strip(ins[0]["recv"])).replace(" ", "") == "basic_blocks[frontier_index]"), render(fb[0]["init"]) if fb else "?", site(SSA, fn))
    conts = [n for n in walk(fn["body"]) if n["k"] in ("Continue", "Break", "Return")]
    # skips: only `continue`, and only because the block writes nothing or the frontier block already has the phi
    # (that the insertion itself is reached under exactly these two tests is checked above)
    def skip_ok(c_):
        if c_["k"] != "Continue":
            return False
        cs_ = [fact_str(x).replace(" ", "") for x in (conditions_to(fn["body"], c_) or []) if x[0] == "if"]
        return bool(cs_) and (cs_[-1].endswith(".is_empty()") or ".has_phi_statement(" in cs_[-1]) and not cs_[-1].startswith("!")
    ctx.check(R, "insert_phi_statements/only-skip-is-no-variables-written", 1 <= len(conts) <= 2 and all(skip_ok(c_) for c_ in conts), "%d early exits" % len(conts), site(SSA, fn))
    # trait defaults
    hp = find_fn(TR, "has_phi_statement")
    if hp is not None:
        t = render(hp["body"]).replace(" ", "")
        pv = sgrep.params(hp)
        from astlib import exists_form

        ef = exists_form(hp)
        ctx.check(R, "SSABasicBlock::has_phi_statement", bool(pv) and ef == ("self.statements()", "$x.is_phi_statement_for(%s)" % pv[0]), "%s ; %s" % (ef, t), site(TR, hp))
    ip = find_fn(TR, "insert_phi_statement")
    if ip is not None:
        t = render(ip["body"]).replace(" ", "")
        pv = sgrep.params(ip)
        ctx.check(R, "SSABasicBlock::insert_phi_statement/prepends", sgrep.has(ip["body"], "self.prepend_statement(SSAStatement::new_phi_statement(__v, __e))", sgrep.lets(ip["body"]), {"__v": pv[0], "__e": pv[1]} if len(pv) == 2 else None), t, site(TR, ip))
    vwf = find_fn(TR, "variables_written", "trait SSABasicBlock")
    if vwf is not None:
        t = render(vwf["body"]).replace(" ", "")
        okk, how = sgrep.each_calls(vwf["body"], "self.statements()", "variables_written", sgrep.lets(vwf["body"]))
        ctx.check(R, "SSABasicBlock::variables_written/all-statements", okk and sgrep.has(vwf["body"], "__acc.extend(__x.variables_written())"), "%s: %s" % (how, t[:160]), site(TR, vwf))
    # renaming order
    fn = find_fn(SSA, "insert_ssa_variables_impl")
    if fn is None:
        return ctx.missing(R, "insert_ssa_variables_impl")
    fn, miss_ = alpha.canon(fn, [("current_index", "param", 0), ("basic_blocks", "param", 1), ("dominator_tree", "param", 2), ("env", "param", 3)])
    for n_ in walk(fn["body"]):
        if n_["k"] == "Local" and n_["pat"]["k"] == "PIdent" and n_["init"] is not None and ".successors()" in render(n_["init"]).replace(" ", "") and n_["pat"]["name"] != "successors":
            alpha.rename(fn["body"], {n_["pat"]["name"]: "successors"})
    for n_ in walk(fn["body"]):
        if n_["k"] == "For" and n_["pat"]["k"] == "PIdent" and render(strip(n_["iter"])).replace(" ", "") in ("successors", "dominator_tree.get_dominator_successors(current_index)") and n_["pat"]["name"] != "successor_index":
            alpha.rename(n_, {n_["pat"]["name"]: "successor_index"})
    ren = list(method_calls(fn["body"], "insert_ssa_variables"))
    upd = list(method_calls(fn["body"], "update_phi_statements"))
    rec = list(calls(fn["body"], "insert_ssa_variables_impl::<Cfg>")) or [c for c in walk(fn["body"]) if c["k"] == "Call" and "insert_ssa_variables_impl" in render(c["func"])]
    add = list(method_calls(fn["body"], "add_variable_scope"))
    rem = list(method_calls(fn["body"], "remove_variable_scope"))
    ok = len(ren) == 1 and len(upd) == 1 and len(rec) == 1 and len(add) == 1 and len(rem) == 1
    ctx.check(R, "insert_ssa_variables_impl/shape", ok, "rename x%d, update-phis x%d, recurse x%d, scope +%d -%d" % (len(ren), len(upd), len(rec), len(add), len(rem)), site(SSA, fn))
    if ok:
        ctx.check(R, "insert_ssa_variables_impl/order", line_of(ren[0]) < line_of(upd[0]) < line_of(add[0]) < line_of(rec[0]) < line_of(rem[0]), "rename block < update successors' phis < open scope < recurse < close scope", site(SSA, fn))
        from pathcond import each_form

        lets_all = sgrep.lets(fn["body"])
        conds_u = conditions_to(fn["body"], upd[0]) or []
        recv_u = strip(upd[0]["recv"])
        if recv_u["k"] == "Path" and recv_u["path"] in lets_all:
            recv_u = lets_all[recv_u["path"]]
        rest_u, args_u = each_form(conds_u, [recv_u])
        cu = rest_u + args_u
        # the receiver is the block whose index runs over the successors of the current block (named by a let or not)
        loops_u = [c for c in conds_u if c[0] == "loop" and c[1] == "for"]
        it_u = strip(loops_u[0][3]) if len(loops_u) == 1 else None
        if it_u is not None and it_u["k"] == "Path" and it_u["path"] in lets_all:
            it_u = lets_all[it_u["path"]]
        src_u = sorted({terms_norm(x) for x in terms_leaves(it_u)}) if it_u is not None else []
        oku = not rest_u and len(loops_u) == 1 and bool(src_u) and all(x.endswith(".successors()") for x in src_u) and len(args_u) == 1 and re.fullmatch(r"basic_blocks\.get_mut\(each\(.*\)\)(\.expect\(.*\)|\.unwrap\(\))?", args_u[0]) is not None
        ctx.check(R, "insert_ssa_variables_impl/every-successor's-phis-updated", oku, "update of %s for each of %s, under %s" % (args_u, src_u, rest_u), site(SSA, upd[0]))
        rest_r, args_r = each_form(conditions_to(fn["body"], rec[0]) or [], [rec[0]["args"][0]])
        cr = rest_r + args_r
        ctx.check(R, "insert_ssa_variables_impl/every-dominator-child-visited", not rest_r and args_r == ["each(dominator_tree.get_dominator_successors(current_index))"], "recursion for %s under %s" % (args_r, rest_r), site(SSA, rec[0]))
        ca, cm = [fact_str(c) for c in (conditions_to(fn["body"], add[0]) or [])], [fact_str(c) for c in (conditions_to(fn["body"], rem[0]) or [])]
        ctx.check(R, "insert_ssa_variables_impl/scope-paired-around-each-child", ca == cm and len(ca) == 1, "open under %s, close under %s" % (ca, cm), site(SSA, fn))
        le = let_env(fn["body"])
        sc = le.get("successors")
        if sc is None and it_u is not None:
            sc = it_u  # however the set is named: what the update loop runs over
        import terms as _terms

        # the set is the successors of the current block on every way through its initialiser (never an empty or a
        # filtered set: a block that writes nothing still passes versions on to the phis of its successors)
        lv = sorted({_terms.norm(x).replace(" ", "") for x in _terms.leaves(sc, {})}) if sc is not None else []
        # `current_block` may be a let of its own: the block looked up at current_index
        cb_ok = "basic_blocks.get_mut(current_index)" in render(sc).replace(" ", "") if sc is not None else False
        if sc is not None and not cb_ok:
            roots_ = {x["path"] for x in walk(sc) if x["k"] == "Path"}
            cb_ok = any(r_ in lets_all and "basic_blocks.get_mut(current_index)" in render(lets_all[r_]).replace(" ", "") for r_ in roots_)
        oks = sc is not None and cb_ok and bool(lv) and all(x.endswith(".successors()") for x in lv) and not [m_ for m_ in walk(sc) if m_["k"] == "MethodCall" and m_["method"] in ("filter", "retain", "take", "skip", "difference", "intersection")]
        ctx.check(R, "insert_ssa_variables_impl/successors-of-the-current-block", bool(oks), "successors is one of %s" % lv, site(SSA, fn))
    top = find_fn(SSA, "insert_ssa_variables")
    if top is not None:
        t = render(top["body"]).replace(" ", "")
        pv = sgrep.params(top)
        bnd = {"__b": pv[0], "__d": pv[1], "__e": pv[2]} if len(pv) == 3 else None
        lenv_t = sgrep.lets(top["body"])
        ctx.check(R, "insert_ssa_variables/starts-at-entry-block", sgrep.has(top["body"], "insert_ssa_variables_impl::<Cfg>(0, __b, __d, __e)", lenv_t, bnd) or sgrep.has(top["body"], "insert_ssa_variables_impl(0, __b, __d, __e)", lenv_t, bnd), t[:160], site(SSA, top))
    up = find_fn(TR, "update_phi_statements")
    if up is not None:
        t = render(up["body"]).replace(" ", "")
        okk, how = sgrep.each_calls(up["body"], "self.statements_mut()", "ensure_phi_argument", None, allow_guard=lambda c: c[0] == "if" and c[2] and render(c[1]).replace(" ", "").endswith(".is_phi_statement()") or (c[0] == "notall" and all(x[0] == "if" and not x[2] and render(x[1]).replace(" ", "").endswith(".is_phi_statement()") for x in c[1])))
        stops = [b for b in walk(up["body"]) if b["k"] in ("Break", "Return")]
        ok = okk and all(any(fact_str(c).replace(" ", "").endswith(".is_phi_statement()") and fact_str(c).startswith("!") for c in (conditions_to(up["body"], b) or [])) for b in stops)
        ctx.check(R, "SSABasicBlock::update_phi_statements/all-leading-phis", ok, t[:200], site(TR, up))
    isv = find_fn(TR, "insert_ssa_variables", "trait SSABasicBlock")
    if isv is not None:
        t = render(isv["body"]).replace(" ", "")
        okk, how = sgrep.each_calls(isv["body"], "self.statements_mut()", "insert_ssa_variables")
        ctx.check(R, "SSABasicBlock::insert_ssa_variables/every-statement-in-order", okk, "%s: %s" % (how, t[:160]), site(TR, isv))


def rule_pipeline(ctx):
    R = "C14.2"
    ctx.rule(R, "into_ssa runs: phi insertion, renaming, parameter versioning, declaration update, type propagation, value propagation, degree propagation, variable-use caching - in this order, each unconditionally")
    fn = find_fn(CFG, "into_ssa", "Cfg")
    if fn is None:
        return ctx.missing(R, "Cfg::into_ssa")
    seq = [("Environment::new", "call"), ("insert_phi_statements", "call"), ("insert_ssa_variables", "call"), ("with_version", "method"), ("ssa_impl::update_declarations", "call"), ("propagate_types", "method"), ("propagate_values", "method"), ("propagate_degrees", "method"), ("cache_variable_use", "method")]
    lines = []
    for name, kind in seq:
        if kind == "call":
            hits = [c for c in walk(fn["body"]) if c["k"] == "Call" and render(c["func"]).replace(" ", "").endswith(name.replace(" ", ""))]
        else:
            hits = list(method_calls(fn["body"], name))
        if len(hits) != 1:
            ctx.bad(R, "into_ssa/step/" + name, "expected exactly one call, found %d" % len(hits), site(CFG, fn))
            lines.append(None)
            continue
        cs = [fact_str(c) for c in (conditions_to(fn["body"], hits[0]) or []) if c[0] not in ("loop", "closure")]
        ctx.check(R, "into_ssa/step/%s/unconditional" % name, not cs, "under %s" % cs, site(CFG, hits[0]))
        lines.append(line_of(hits[0]))
    if all(l is not None for l in lines):
        ctx.check(R, "into_ssa/order", lines == sorted(lines) and len(set(lines)) == len(lines), "call lines %s" % lines, site(CFG, fn))
    # ... and nothing else changes the statements: after renaming no step removes, reorders or rewrites a statement
    # (a phi that looks unused is still the definition another phi's argument names)
    REMOVERS = ("retain", "retain_mut", "remove", "swap_remove", "drain", "clear", "truncate", "pop", "dedup", "dedup_by", "dedup_by_key", "split_off", "sort", "sort_by", "sort_by_key", "reverse", "swap")
    touched = [m for m in walk(fn["body"]) if m["k"] == "MethodCall" and (m["method"] == "statements_mut" or (m["method"] in REMOVERS and re.search(r"basic_blocks|statements|stmts|block", render(m["recv"]))))]
    ctx.check(R, "into_ssa/no-step-removes-statements", not touched, "into_ssa edits the statement lists directly: %s" % [render(m)[:60] for m in touched][:3], site(CFG, touched[0]) if touched else site(CFG, fn))
    t = render(fn["body"]).replace(" ", "")
    ctx.check(R, "into_ssa/parameters-are-version-0", sgrep.has(fn["body"], "for __n in self.parameters.iter_mut() { *__n = __n.with_version(0); }") or sgrep.has(fn["body"], "self.parameters.iter_mut().for_each(|__n| *__n = __n.with_version(0))"), "", site(CFG, fn))
    ctx.check(R, "into_ssa/declarations-replaced", sgrep.has(fn["body"], "self.declarations = ssa_impl::update_declarations(&mut self.basic_blocks, &self.parameters, __env)", sgrep.lets(fn["body"])), "", site(CFG, fn))


def terms_norm(x):
    import terms as _t

    return _t.norm(x).replace(" ", "")


def terms_leaves(e):
    import terms as _t

    return _t.leaves(e, {})


def rule_plumbing(ctx):
    R = "C14.7"
    ctx.rule(R, "the SSA plumbing of a basic block: a phi statement is put in front of every other statement of its block; the variables a statement writes are all locals it writes, element-wise updates included")
    BBF = "program_structure/src/control_flow_graph/basic_block.rs"
    pp = find_fn(BBF, "prepend_statement", "BasicBlock")
    if pp is None:
        ctx.missing(R, "BasicBlock::prepend_statement")
    else:
        pv = sgrep.params(pp)
        ok = len(pv) == 1 and (sgrep.has(pp["body"], "self.stmts.insert(0, __s)", sgrep.lets(pp["body"]), {"__s": pv[0]}) or sgrep.has(pp["body"], "self.stmts.push_front(__s)", None, {"__s": pv[0]})) and len(list(method_calls(pp["body"], "insert"))) + len(list(method_calls(pp["body"], "push_front"))) == 1
        ctx.check(R, "BasicBlock::prepend_statement/at-the-head", ok, render(pp["body"])[:160], site(BBF, pp))
    tp = None
    for q, f in fns_in_file(SI):
        if f["name"] == "prepend_statement" and "SSABasicBlock" in q:
            tp = f
    if tp is not None:
        pv = sgrep.params(tp)
        ctx.check(R, "SSABasicBlock::prepend_statement/delegates", len(pv) == 1 and (sgrep.has(tp["body"], "self.prepend_statement(__s)", None, {"__s": pv[0]}) or sgrep.has(tp["body"], "BasicBlock::prepend_statement(self, __s)", None, {"__s": pv[0]})), render(tp["body"])[:120], site(SI, tp))
    vw = None
    for q, f in fns_in_file(SI):
        if f["name"] == "variables_written" and "SSAStatement" in q:
            vw = f
    if vw is None:
        ctx.missing(R, "SSAStatement::variables_written")
    else:
        from astlib import collection_form

        cf = collection_form(vw)
        # the set of names of all locals the statement writes: no filter, every element mapped to its name
        ok = cf is not None and cf[0] in ("VariableMeta::locals_written(self)", "self.locals_written()") and cf[1] in ("$x.name()", "$x.name().clone()") and not cf[2]
        ctx.check(R, "SSAStatement::variables_written/all-locals-written", ok, "reads as (source, element, filters) = %s" % (cf,), site(SI, vw))


def rule_phis_and_locals(ctx):
    R = "C14.3"
    ctx.rule(R, "a phi statement is recognised for a variable by the full (name, suffix) identity; phi arguments are the current version under the environment; only names declared as locals are versioned, written names get a fresh version after their right-hand side was renamed")
    f = find_fn(SI, "is_phi_statement_for")
    if f is None:
        ctx.missing(R, "is_phi_statement_for")
    else:
        from astlib import truth_paths

        pvf = sgrep.params(f)
        tp = truth_paths(f)
        det = str(tp)[:300]
        nm_ = pvf[0] if pvf else "name"
        ok = len(tp) == 1 and tp[0][0] == ["(letSubstitution{var,rhe:Phi{..},..}=self)"] and tp[0][1] in ("(var==%s)" % nm_, "(%s==var)" % nm_)
        ctx.check(R, "is_phi_statement_for/full-variable-identity", ok, det + " (the comparison must be on the whole VariableName: name and suffix)", site(SI, f))
    f = find_fn(SI, "is_phi_statement")
    if f is not None:
        from astlib import truth_paths

        tp = truth_paths(f)
        okk = tp == [(["(letSubstitution{rhe:Phi{..},..}=self)"], "true")]
        ctx.check(R, "is_phi_statement", okk, str(tp)[:200], site(SI, f))
    f = find_fn(SI, "new_phi_statement")
    if f is not None:
        t = render(f["body"]).replace(" ", "")
        pv = sgrep.params(f)
        envl = sgrep.lets(f["body"])
        st = [n for n in walk(f["body"]) if n["k"] == "Struct" and last(n["path"]) == "Substitution"]
        okk = False
        if len(st) == 1 and pv:
            fl = {x["name"]: x["e"] for x in st[0]["fields"]}
            rhe = strip(fl.get("rhe", {"k": "?"}))
            if rhe.get("k") == "Path" and rhe["path"] in envl:
                rhe = strip(envl[rhe["path"]])
            args_empty = rhe.get("k") == "Struct" and last(rhe["path"]) == "Phi" and any(x["name"] == "args" and render(strip(x["e"])).replace(" ", "") in ("Vec::new()", "vec!()", "Vec::default()") for x in rhe["fields"])
            okk = render(strip(fl.get("var", {"k": "?"}))).replace(" ", "") == "%s.without_version()" % pv[0] and last(render(strip(fl.get("op", {"k": "?"})))) == "AssignLocalOrComponent" and args_empty
        ctx.check(R, "new_phi_statement/unversioned-target-empty-args", okk, t[:200], site(SI, f))
    f = find_fn(SI, "ensure_phi_argument")
    if f is not None and eval_phi_argument(ctx, R, f):
        f = None
    if f is not None:
        from pathcond import enumerate_paths

        push = list(method_calls(f["body"], "push"))
        envp = (sgrep.params(f) or [None])[0]
        okall = bool(push) and bool(envp)
        dets = []
        for p_ in push:
            cs_f = conditions_to(f["body"], p_) or []
            cs = [fact_str(c).replace(" ", "") for c in cs_f]
            b = {}
            ok1 = False
            if sgrep.match(sgrep.pattern("__n.with_version(__v)"), p_["args"][0], b) and b["__n"] in ("var", "name"):
                # the version pushed is the one bound by `Some(v) = env.get_current_version(name)` on the way to the push
                for c in cs_f:
                    if c[0] == "iflet" and c[3] and render(c[1]).replace(" ", "") == "Some(%s)" % b["__v"] and sgrep.match(sgrep.pattern("%s.get_current_version(%s)" % (envp, b["__n"])), c[2], {}):
                        ok1 = True
            elif sgrep.match(sgrep.pattern("__n.without_version()"), p_["args"][0], b) and b["__n"] in ("var", "name"):
                # the unassigned initial value: only on the edge along which the environment has no version of the variable
                ok1 = any(c[0] == "iflet" and c[3] and render(c[1]).replace(" ", "") == "None" and sgrep.match(sgrep.pattern("%s.get_current_version(%s)" % (envp, b["__n"])), c[2], {}) for c in cs_f)
            okall = okall and ok1
            dets.append("push(%s) under %s" % (render(p_["args"][0])[:40], cs))
        ctx.check(R, "ensure_phi_argument/argument-is-current-version", okall, "; ".join(dets) or "no push", site(SI, f))
        # every incoming edge contributes an argument: a path through the phi arm either adds one or finds it present.
        # An edge along which the variable was never assigned (`var x; if (c) { x = 1; }`) must leave a trace too -
        # otherwise the phi looks as if it were determined by the other edges alone and `x` is claimed constant.
        silent = []
        npaths = 0
        for conds, atoms, ex in enumerate_paths(f["body"]):
            if ex == "panic" or not any(c[0] in ("arm", "iflet") and "Phi" in fact_str(c) and (c[0] == "arm" or c[3]) for c in conds):
                continue
            npaths += 1
            adds = any(m_["k"] == "MethodCall" and m_["method"] == "push" for a_ in atoms for m_ in walk(a_))
            present = any(c[0] == "if" and c[2] and strip(c[1])["k"] == "MethodCall" and strip(c[1])["method"] == "any" for c in conds)
            if not adds and not present:
                silent.append([fact_str(c) for c in conds if "Phi" not in fact_str(c)][:3])
        ctx.check(R, "ensure_phi_argument/every-edge-contributes", npaths >= 2 and not silent, "paths through the phi arm that neither add an argument nor find it present: %s" % silent[:2] if silent else "%d paths, each adds an argument or finds it present" % npaths, site(SI, f))
    # Statement::insert_ssa_variables: Substitution arm
    f = None
    for q, fn in fns_in_file(SI):
        if fn["name"] == "insert_ssa_variables" and "Statement" in q:
            f = fn
    if f is None:
        ctx.missing(R, "Statement::insert_ssa_variables")
    elif eval_children_renamed(ctx, R, f) and False:
        pass
    elif not eval_written_variable(ctx, R, f):
        ms = [m for m in walk(f["body"]) if m["k"] == "Match" and render(strip(m["scrut"])) == "self"]
        arm = [a for a in ms[0]["arms"] if "Substitution" in render(a["pat"])] if ms else []
        if len(arm) != 1:
            ctx.missing(R, "Statement::insert_ssa_variables/Substitution")
        else:
            body = arm[0]["body"]
            asg = [n for n in walk(body) if n["k"] == "Assign" and render(n["l"]).replace(" ", "") == "*var"]
            vis = list(calls(body, "visit_expression"))
            nxt = list(method_calls(body, "get_next_version"))
            ok = len(asg) == 1 and len(vis) == 1 and len(nxt) == 1
            ctx.check(R, "Statement::insert_ssa_variables/Substitution/shape", ok, "assign x%d visit x%d next-version x%d" % (len(asg), len(vis), len(nxt)), site(SI, arm[0]))
            if ok:
                cs = [fact_str(c).replace(" ", "") for c in (conditions_to(body, asg[0]) or [])]
                ctx.check(R, "Statement::insert_ssa_variables/Substitution/only-locals-versioned", cs == ["env.is_local(var)"], "written name versioned under %s" % cs, site(SI, asg[0]))
                ctx.check(R, "Statement::insert_ssa_variables/Substitution/rhs-renamed-before-the-write", line_of(vis[0]) < line_of(nxt[0]) and render(strip(vis[0]["args"][0])) == "rhe", "the right-hand side reads the previous version: it must be renamed before the new version is created", site(SI, arm[0]))
                ctx.check(R, "Statement::insert_ssa_variables/Substitution/fresh-version", render(strip(asg[0]["r"])).replace(" ", "") == "var.with_version(version)" and render(strip(nxt[0]["args"][0])) == "var", render(asg[0])[:80], site(SI, asg[0]))
    # visit_expression: reads
    f = find_fn(SI, "visit_expression")
    if f is None:
        ctx.missing(R, "ssa_impl::visit_expression")
    else:
        ms = [m for m in walk(f["body"]) if m["k"] == "Match" and render(strip(m["scrut"])) == "expr"]
        decided_r = eval_renaming(ctx, R, f)
        for variant, nm in ((("Variable", "name"), ("Access", "var"), ("Update", "var")) if not decided_r else ()):
            arm = [a for a in ms[0]["arms"] if variant in [last(p) for p in pat_paths(a["pat"])]] if ms else []
            if len(arm) != 1:
                ctx.missing(R, "visit_expression/" + variant)
                continue
            body = arm[0]["body"]
            asg = [n for n in walk(body) if n["k"] == "Assign" and render(n["l"]).replace(" ", "") == "*" + nm]
            ctx.floor(R, "visit_expression/%s versioning sites" % variant, len(asg), 1)
            for i, a in enumerate(asg):
                cs = [fact_str(c).replace(" ", "") for c in (conditions_to(body, a) or [])]
                ok = ("!!env.is_local(%s)" % nm) in cs or ("env.is_local(%s)" % nm) in cs
                cur = any(c.startswith("matchenv.get_current_version(%s)=>" % nm) or c.endswith("=env.get_current_version(%s))" % nm) for c in cs)
                # the version written is the one bound by `Some(v) = env.get_current_version(name)` on this path
                vb = [re.fullmatch(r"\(letSome\((\w+)\)=env\.get_current_version\(%s\)\)" % re.escape(nm), c) for c in cs]
                vb = [m_.group(1) for m_ in vb if m_] + [re.fullmatch(r"matchenv\.get_current_version\(%s\)=>Some\((\w+)\)" % re.escape(nm), c).group(1) for c in cs if re.fullmatch(r"matchenv\.get_current_version\(%s\)=>Some\((\w+)\)" % re.escape(nm), c)]
                rt = render(strip(a["r"])).replace(" ", "")
                rhs = any(rt == "%s.with_version(%s)" % (nm, v_) for v_ in vb) or (not vb and rt == "%s.with_version(version)" % nm)
                ctx.check(R, "visit_expression/%s/write%d/only-locals-current-version" % (variant, i + 1), ok and cur and rhs, "versioned under %s" % cs, site(SI, a))


def eval_children_renamed(ctx, R, f):
    """`Statement::insert_ssa_variables` on every statement kind, the expression renamer replaced by a recorder: every
    expression directly below the statement - condition, value, both sides, every dimension of a declaration of any
    type, every expression argument of a log call - is handed to the renamer exactly once."""
    import passeval
    from finfun import E, NONE, S, Unsupported
    from passeval import O, Panic, V

    try:
        w = passeval.PassWorld([IR, SI], SI)
    except Exception:  # noqa: BLE001
        return False
    w.lenient_opaque = True
    w.method_stubs = {("Statement", "propagate_types"): lambda r, a: ("T", ()), ("Statement", "cache_variable_use"): lambda r, a: ("T", ())}
    d = a10.enum_def(IR, "Statement")
    if not d:
        return False
    decided = 0
    for vname, vdef in d.items():
        kinds = [None]
        if vname == "Declaration":
            kinds = [E("VariableType", "Local"), E("VariableType", "Component"), E("VariableType", "AnonymousComponent"), S("Signal", E("SignalType", "Input"), ("L", ()))]
        problems, unsupported = [], None
        for vt in kinds:
            kids = []
            fields = {}
            for f_ in vdef["fields"]:
                nm, ty = f_["name"], f_["ty"].replace(" ", "")
                if ty in ("Expression", "Box<Expression>"):
                    fields[nm] = O("expr:" + nm)
                    kids.append(fields[nm])
                elif ty == "Vec<Expression>":
                    fields[nm] = ("L", (O("expr:%s[0]" % nm), O("expr:%s[1]" % nm)))
                    kids += list(fields[nm][1])
                elif ty == "Vec<LogArgument>":
                    e_ = O("expr:log-argument")
                    fields[nm] = ("L", (S("String", "text"), S("Expr", e_), S("String", "more text"), S("Expr", O("expr:log-argument-2"))))
                    kids += [e_, fields[nm][1][3][2][0]]
                elif ty == "VariableType":
                    fields[nm] = vt
                elif ty == "VariableName":
                    fields[nm] = ("O", "name", (("version", NONE), ("with_version", ("PY", lambda v_: O("name@%r" % (v_,))))))
                else:
                    fields[nm] = O("%s.%s" % (vname, nm))
            if not kids:
                continue
            seen = []
            w.stubs = {"visit_expression": lambda args, seen=seen: (seen.append(args[0]), S("Ok", ("T", ())))[1]}
            env = ("O", "environment", (("is_local", ("PY", lambda nm_: True)), ("get_next_version", ("PY", lambda nm_: 1)), ("get_current_version", ("PY", lambda nm_: S("Some", 0))), ("declarations", O("declarations"))))
            node = V("Statement", vname, **fields)
            try:
                w.call_fn(f, [node, env])
            except Unsupported as u:
                unsupported = str(u)
                break
            except Panic as p_:
                problems.append("panics (%s)" % p_)
                continue
            finally:
                w.stubs = {}
            for k_ in kids:
                c_ = sum(1 for y in seen if y is k_)
                if c_ != 1:
                    problems.append("`%s`%s is renamed %d time(s)" % (k_[1][5:], (" of a declaration of type %s" % (vt[2] if vt[0] == "E" else vt[1])) if vt is not None else "", c_))
        if unsupported:
            ctx.missing(R, "ssa_impl::insert_ssa_variables/%s/evaluation" % vname, "cannot be evaluated (fail closed): %s" % unsupported)
            continue
        if problems or decided >= 0:
            decided += 1
            ctx.check(R, "ssa_impl::insert_ssa_variables/%s/every-expression-renamed-once" % vname, not problems, "; ".join(sorted(set(problems))[:3]) or "every expression below the statement is handed to the renamer once", site(SI, f))
    ctx.floor(R, "statement kinds whose renaming traversal was evaluated", decided, 6)
    return True


def eval_written_variable(ctx, R, f):
    """`Statement::insert_ssa_variables` on an assignment, evaluated for a local and for a non-local target: the
    right-hand side is renamed exactly once and before a new version is taken (it reads the previous one); a local
    target gets exactly one fresh version, which is the one written into the statement; any other target is left
    alone and takes no version.  Returns True when decided."""
    import passeval
    from finfun import NONE, S, Unsupported
    from passeval import O, Panic, V

    try:
        w = passeval.PassWorld([IR, SI], SI)
    except Exception:  # noqa: BLE001
        return False
    w.lenient_opaque = True
    w.method_stubs = {("Statement", "propagate_types"): lambda r, a: ("T", ()), ("Statement", "cache_variable_use"): lambda r, a: ("T", ())}
    bad = {}
    n = 0
    for local in (True, False):
        events = []
        made = {}

        def with_version(v, made=made):
            o_ = ("O", "target@%r" % (v,), (("version", S("Some", v)),))
            made[id(o_)] = v
            return o_

        target = ("O", "target", (("with_version", ("PY", with_version)), ("version", NONE), ("clone", ("PY", lambda: target_holder[0]))))
        target_holder = [target]
        rhe = O("right-hand-side")
        w.stubs = {"visit_expression": lambda args, events=events: (events.append(("visit", args[0])), S("Ok", ("T", ())))[1]}

        def next_version(nm, events=events):
            events.append(("next", nm))
            return 7

        env = ("O", "environment", (("is_local", ("PY", lambda nm, local=local: local)), ("get_next_version", ("PY", next_version)), ("get_current_version", ("PY", lambda nm: S("Some", 6))), ("declarations", O("declarations"))))
        stmt = V("Statement", "Substitution", meta=O("meta"), var=target, op=O("op"), rhe=rhe)
        try:
            res = w.call_fn(f, [stmt, env])
        except Unsupported as u:
            ctx.note("Statement::insert_ssa_variables/Substitution is outside the evaluator's subset (%s): shape obligations apply" % u)
            return False
        except Panic as p_:
            bad.setdefault("shape", "%s target: panics (%s)" % ("local" if local else "non-local", p_))
            continue
        finally:
            w.stubs = {}
        n += 1
        tag = "local target" if local else "signal / component target"
        visits = [i for i, e_ in enumerate(events) if e_[0] == "visit"]
        nexts = [i for i, e_ in enumerate(events) if e_[0] == "next"]
        if not (isinstance(res, tuple) and len(res) > 2 and res[1] == "Ok"):
            bad.setdefault("shape", "%s: returns %r" % (tag, res))
        if len(visits) != 1 or events[visits[0]][1] is not rhe:
            bad.setdefault("shape", "%s: the right-hand side is renamed %d time(s)" % (tag, len(visits)))
        after = stmt[3]["var"]
        if local:
            if len(nexts) != 1 or events[nexts[0]][1] is not target:
                bad.setdefault("fresh", "%s: %d fresh version(s) taken" % (tag, len(nexts)))
            elif visits and visits[0] > nexts[0]:
                bad.setdefault("order", "%s: the new version is created before the right-hand side - which reads the previous one - is renamed" % tag)
            if made.get(id(after)) != 7:
                bad.setdefault("fresh", "%s: the statement now writes %s, expected the fresh version" % (tag, after[1] if isinstance(after, tuple) else after))
        else:
            if nexts or after is not target:
                bad.setdefault("locals", "%s: %d version(s) taken, the statement now writes %s" % (tag, len(nexts), after[1] if isinstance(after, tuple) else after))
    arm_site = site(SI, f)
    ctx.check(R, "Statement::insert_ssa_variables/Substitution/shape", "shape" not in bad and n == 2, bad.get("shape", "the right-hand side is renamed once; the call succeeds"), arm_site)
    ctx.check(R, "Statement::insert_ssa_variables/Substitution/only-locals-versioned", "locals" not in bad, bad.get("locals", "a signal or component target takes no version and is left as written"), arm_site)
    ctx.check(R, "Statement::insert_ssa_variables/Substitution/rhs-renamed-before-the-write", "order" not in bad, bad.get("order", "the right-hand side is renamed before the new version is created"), arm_site)
    ctx.check(R, "Statement::insert_ssa_variables/Substitution/fresh-version", "fresh" not in bad, bad.get("fresh", "a local target gets one fresh version, and that version is written"), arm_site)
    return True


def eval_phi_argument(ctx, R, f):
    """ensure_phi_argument evaluated on a phi statement for (the environment has a current version of the variable or
    not) x (what the argument list already holds): afterwards the list holds the current version - or, when the
    variable is unassigned along this edge, an unversioned argument - exactly once; nothing else changes."""
    import passeval
    from finfun import NONE, S, Unsupported
    from passeval import O, Sink, V

    try:
        w = passeval.PassWorld([IR, SI], SI)
    except Exception:
        return False
    w.lenient_opaque = True
    w.method_stubs = {("Statement", "propagate_types"): lambda r, a: ("T", ()), ("Statement", "cache_variable_use"): lambda r, a: ("T", ())}
    n = 0
    bad = None

    def mk(ver):
        return ("O", "x@%s" % (ver,), (("version", NONE if ver is None else S("Some", ver)),))

    for cur in (None, 3):
        for have in ((), (1,), (3,), (None,), (1, 3), (1, None), (5,), (1, 5), (5, 1), (None, 5)):
            made = []

            def with_version(v, made=made):
                o_ = mk(v)
                made.append(o_)
                return o_

            def without_version(made=made):
                o_ = mk(None)
                made.append(o_)
                return o_

            name0 = ("O", "x", (("version", NONE), ("with_version", ("PY", with_version)), ("without_version", ("PY", without_version))))
            args = Sink()
            args.items = [mk(v) for v in have]
            before = list(args.items)
            stmt = V("Statement", "Substitution", meta=O("meta"), var=name0, op=O("op"), rhe=V("Expression", "Phi", meta=O("phi-meta"), args=args))
            envv = ("O", "environment", (("get_current_version", ("PY", lambda nm, cur=cur: NONE if cur is None else S("Some", cur))), ("declarations", O("declarations"))))
            try:
                w.call_fn(f, [stmt, envv])
            except Unsupported as u:
                ctx.note("ensure_phi_argument is outside the evaluator's subset (%s): shape obligations apply" % u)
                return False
            except passeval.Panic as p_:
                bad = bad or "panics: %s" % p_
                continue
            n += 1
            after = stmt[3]["rhe"][3]["args"]
            after = after.items if isinstance(after, Sink) else None
            vers = [dict(a_[2]).get("version") for a_ in after] if after is not None else None
            want_ver = NONE if cur is None else S("Some", cur)
            ok = after is not None and after[:len(before)] == before and vers.count(want_ver) == 1 and len(after) == len(before) + (0 if want_ver in [dict(b_[2]).get("version") for b_ in before] else 1)
            if not ok:
                bad = bad or "current version %s, arguments before %s: afterwards %s" % (cur, list(have), [a_[1] for a_ in after] if after is not None else "?")
    ctx.floor(R, "phi argument worlds evaluated", n, 10)
    ctx.check(R, "ensure_phi_argument/every-edge-contributes", bad is None, bad or "each incoming edge leaves exactly one argument: the current version, or an unversioned one when the variable is unassigned along the edge")
    return True


def eval_renaming(ctx, R, f):
    """the SSA renaming of one expression node, evaluated for Variable / Access / Update x (declared local or not) x
    (the environment has a current version or not): the name is replaced by the current version exactly for locals;
    a read of a local without a version is the `undefined variable` error; the array read by an element update gets
    the next fresh version instead.  False when outside the evaluator's subset."""
    import passeval
    from finfun import NONE, S, Unsupported
    from passeval import O, V

    try:
        w = passeval.PassWorld([IR, SI, "program_structure/src/static_single_assignment/errors.rs"], SI)
    except Exception:
        return False
    w.lenient_opaque = True
    n = 0
    bad = {}
    for variant, fld in (("Variable", "name"), ("Access", "var"), ("Update", "var")):
        for local in (False, True):
            for cur in (None, 3):
                calls_ = {"next": 0, "with": []}

                def with_version(v, calls_=calls_):
                    calls_["with"].append(v)
                    return ("O", "name@%s" % (v,))

                name0 = ("O", "name", (("version", NONE), ("with_version", ("PY", with_version)), ("to_string", "name"), ("name", "name")))

                def nxt(nm, calls_=calls_):
                    calls_["next"] += 1
                    return 7

                envv = ("O", "environment", (("is_local", ("PY", lambda nm, local=local: local)), ("get_current_version", ("PY", lambda nm, cur=cur: NONE if cur is None else S("Some", cur))), ("get_next_version", ("PY", nxt))))
                leaf = S("Number", O("leaf-meta"), 0)
                acc = ("L", (S("ArrayAccess", leaf), S("ComponentAccess", "out")))
                fields = {"meta": O("meta")}
                fields[fld] = name0
                if variant in ("Access", "Update"):
                    fields["access"] = acc
                if variant == "Update":
                    fields["rhe"] = leaf
                node = V("Expression", variant, **fields)
                try:
                    res = w.call_fn(f, [node, envv])
                except Unsupported as u:
                    ctx.note("ssa visit_expression is outside the evaluator's subset (%s): shape obligations apply" % u)
                    return False
                except passeval.Panic as p_:
                    bad.setdefault("visit_expression/%s/no-panic" % variant, str(p_))
                    continue
                n += 1
                after = node[3][fld]
                is_ok = isinstance(res, tuple) and len(res) > 2 and res[0] == "S" and res[1] == "Ok"
                is_err = isinstance(res, tuple) and len(res) > 2 and res[0] == "S" and res[1] == "Err"
                key = "visit_expression/%s/versioned-exactly-for-locals" % variant
                if not local:
                    ok = is_ok and after is name0 and not calls_["with"] and calls_["next"] == 0
                    want = "left alone"
                elif cur is not None:
                    ok = is_ok and after == ("O", "name@3") and calls_["next"] == 0
                    want = "renamed to the current version"
                elif variant == "Update":
                    ok = is_ok and after == ("O", "name@7") and calls_["next"] == 1
                    want = "given the next fresh version (first element assignment of an array)"
                else:
                    ok = is_err and after is name0 and calls_["next"] == 0
                    want = "the `undefined variable` error"
                if not ok:
                    bad.setdefault(key, "declared local=%s, current version=%s: expected %s; result %s, name now %s, fresh versions taken: %d" % (local, cur, want, res[1] if isinstance(res, tuple) and len(res) > 1 else res, after[1] if isinstance(after, tuple) else after, calls_["next"]))
    ctx.floor(R, "renaming worlds evaluated", n, 12)
    for variant in ("Variable", "Access", "Update"):
        key = "visit_expression/%s/versioned-exactly-for-locals" % variant
        kp = "visit_expression/%s/no-panic" % variant
        ctx.check(R, key, key not in bad and kp not in bad, bad.get(key) or bad.get(kp) or "locals get the current version (an element update of a fresh array the next one), everything else is left alone, a local without a version is an error", site(SI, f))
    return True


def key_function(ctx, R):
    """returns (separator, ok) of the SSA version key"""
    acc = {}
    for nm in ("get_current_version", "get_version_range", "get_next_version"):
        f = find_fn(SI, nm, "Environment")
        if f is None:
            ctx.missing(R, "Environment::" + nm)
            continue
        le = sgrep.lets(f["body"])
        pvk = sgrep.params(f)
        keys = set()
        for m in walk(f["body"]):
            if m["k"] == "MethodCall" and m["method"] in ("get_variable", "add_variable") and "versions" in render(m["recv"]) and m["args"]:
                a = strip(m["args"][0])
                for _ in range(4):
                    if a["k"] == "Path" and a["path"] in le:
                        a = strip(le[a["path"]])
                t_ = render(a).replace(" ", "")
                if pvk:
                    t_ = re.sub(r"\b%s\b" % re.escape(pvk[0]), "name", t_)
                keys.add(t_)
        acc[nm] = sorted(keys)[0] if len(keys) == 1 else (None if not keys else "|".join(sorted(keys)))
    vals = set(acc.values())
    ctx.check(R, "Environment/all-accessors-use-the-same-key", len(vals) == 1 and None not in vals, "keys: %s" % acc, SI)
    keyexpr = list(vals)[0] if len(vals) == 1 else None
    sep = None
    if keyexpr and keyexpr.startswith("Self::key("):
        kf = find_fn(SI, "key", "Environment")
        if kf is not None:
            t = render(kf["body"])
            m = re.search(r'format!\("\{\}(.)\{\}"\s*,\s*name\s*\.\s*name\s*\(\)\s*,\s*suffix\)', t)
            none_ok = re.search(r"None => name\.name\(\)", t) is not None
            if m and none_ok:
                sep = m.group(1)
    elif keyexpr and keyexpr.startswith('format!("{:?}"'):
        # Debug form of the unversioned name: separator from impl Debug for VariableName
        src = None
        for q, f in fns_in_file(IR):
            if f["name"] == "fmt" and "Debug for VariableName" in q:
                src = render(f["body"])
        if src:
            m = re.search(r'write!\(f\s*,\s*"(.)\{suffix\}"', src)
            if m:
                sep = m.group(1)
    return keyexpr, sep


def identifier_alphabet():
    nts = grammar.parse()
    nt = nts.get("IDENTIFIER")
    if not nt or not nt["alts"]:
        return None
    s = nt["alts"][0]["symbols"][0]
    if s["kind"] != "regex":
        return None
    rx = s["value"]
    chars = set()
    import re as _re
    for m in _re.finditer(r"\[([^\]]*)\]", rx):
        cls = m.group(1)
        i = 0
        while i < len(cls):
            if i + 2 < len(cls) and cls[i + 1] == "-":
                for c in range(ord(cls[i]), ord(cls[i + 2]) + 1):
                    chars.add(chr(c))
                i += 3
            else:
                chars.add(cls[i])
                i += 1
    return rx, chars


def rule_keys(ctx, R="C14.5"):
    ctx.rule(R, "SSA version counters are keyed by a text of (name, suffix) whose separator cannot occur in an identifier (so the key is injective), and every accessor uses the same key")
    keyexpr, sep = key_function(ctx, R)
    alpha = identifier_alphabet()
    if alpha is None:
        ctx.missing(R, "grammar/IDENTIFIER")
        return
    rx, chars = alpha
    ctx.table("identifier alphabet", {"regex": rx, "size": len(chars)})
    if sep is None:
        ctx.bad(R, "Environment/key/injective", "cannot determine the separator between name and suffix in key `%s` (fail closed)" % keyexpr, SI)
    else:
        ctx.check(R, "Environment/key/injective", sep not in chars, "separator %r between name and suffix is %s the identifier alphabet %s: `x` with suffix `0` and a variable literally called `x%s0` %s" % (sep, "in" if sep in chars else "outside", rx, sep, "share one version counter" if sep in chars else "cannot collide"), SI)


def rule_traversal(ctx):
    R = "C14.4"
    ctx.rule(R, "SSA renaming visits every child expression of every expression and statement kind")
    n = a10.check(ctx, R, SI, "visit_expression", None, IR, "Expression", {"visit_expression"}, scrutinee="expr")
    ctx.floor(R, "expression children", n, 11)
    f = None
    for q, fn in fns_in_file(SI):
        if fn["name"] == "insert_ssa_variables" and "Statement" in q:
            f = (q, fn)
    if f:
        n = a10.check(ctx, R, SI, "insert_ssa_variables", f[0], IR, "Statement", {"visit_expression"}, scrutinee="self")
        ctx.floor(R, "statement children", n, 7)


def eval_declarations(ctx, R, f):
    """update_declarations evaluated on one parameter, an assigned local, an unassigned local and a signal: afterwards
    every version of the parameter and of the assigned local is declared, the unassigned local has version 0, the
    signal keeps its unversioned name, and the declaration statement of a local lists all its versions."""
    import passeval
    from finfun import E, NONE, S, Unsupported
    from passeval import Iter, O, Sink, V

    try:
        w = passeval.PassWorld([IR, SI], SI)
    except Exception:
        return False
    w.lenient_opaque = True
    declared = []
    recorder = ("O", "declarations", (("add_declaration", ("PY", lambda d_: (declared.append(d_), ("T", ()))[1])),))
    w.opaque = (("Declarations::new", lambda rest, args: recorder), ("Declarations::default", lambda rest, args: recorder))

    def name(tag):
        return ("O", tag, (("version", NONE), ("with_version", ("PY", lambda v_, tag=tag: ("O", "%s@%s" % (tag, v_)))), ("without_version", ("O", tag))))

    P, X, Y, Sg = name("p"), name("x"), name("y"), name("s")
    ranges = {"p": S("Some", ("L", (0, 1, 2))), "x": S("Some", ("L", (0, 1))), "y": NONE, "s": NONE}
    envv = ("O", "environment", (("get_version_range", ("PY", lambda nm: ranges.get(nm[1], NONE))),))
    params = ("O", "parameters", (("iter", ("PY", lambda: Iter([P]))), ("file_id", O("file-id")), ("file_location", O("location")), ("len", 1)))

    def decl(nm, vt):
        names = ("O", "names-of-" + nm[1], (("first", nm), ("len", 1), ("iter", ("PY", lambda nm=nm: Iter([nm])))))
        return V("Statement", "Declaration", meta=O("meta-of-" + nm[1]), names=names, var_type=vt, dimensions=("L", ()))

    stmts = [decl(X, E("VariableType", "Local")), decl(Y, E("VariableType", "Local")), decl(Sg, S("Signal", O("signal-type"), O("tags")))]
    block = ("O", "block", (("iter_mut", ("PY", lambda: Iter(stmts))), ("iter", ("PY", lambda: Iter(stmts)))))
    blocks = ("L", (block,))
    argv = []
    for i in f["sig"]["inputs"]:
        t_ = i["ty"].replace(" ", "")
        if "BasicBlock" in t_:
            argv.append(blocks)
        elif "Parameters" in t_:
            argv.append(params)
        elif "Environment" in t_:
            argv.append(envv)
        else:
            return False
    try:
        w.call_fn(f, argv)
    except Unsupported as u:
        ctx.note("update_declarations is outside the evaluator's subset (%s): shape obligations apply" % u)
        return False
    except passeval.Panic as p_:
        ctx.bad(R, "update_declarations/declares-every-version", "panics: %s" % p_, site(SI, f))
        return True

    def names_in(d_):
        out = []

        def rec(x, depth=0):
            if depth > 6:
                return
            if isinstance(x, tuple):
                if len(x) >= 2 and x[0] == "O" and isinstance(x[1], str) and re.fullmatch(r"[pxys](@\d+)?", x[1]):
                    out.append(x[1])
                    return
                for y in x:
                    if isinstance(y, (tuple, list)):
                        rec(y, depth + 1)
            elif isinstance(x, list):
                for y in x:
                    rec(y, depth + 1)

        rec(d_)
        return out

    got = sorted(n_ for d_ in declared for n_ in names_in(d_)[:1])
    want = sorted(["p@0", "p@1", "p@2", "x@0", "x@1", "y@0", "s"])
    ctx.check(R, "update_declarations/declares-every-version", got == want, "declared: %s; expected %s (all versions of the parameter and of the assigned local, version 0 of the unassigned local, the signal unversioned)" % (got, want), site(SI, f))
    nx = stmts[0][3]["names"]
    listed = sorted(n_[1] for n_ in (nx.items if isinstance(nx, Sink) else (nx[1] if isinstance(nx, tuple) and nx and nx[0] == "L" else [])) if isinstance(n_, tuple))
    ctx.check(R, "update_declarations/statement-lists-the-versions", listed == ["x@0", "x@1"], "the declaration statement of x now names %s" % listed, site(SI, f))
    return True


def rule_declarations(ctx):
    R = "C14.6"
    ctx.rule(R, "every version of every parameter and of every declared local gets a declaration; signals and components are copied unversioned")
    f = find_fn(SI, "update_declarations")
    if f is None:
        return ctx.missing(R, "update_declarations")
    if eval_declarations(ctx, R, f):
        return
    adds = list(method_calls(f["body"], "add_declaration"))
    ctx.floor(R, "add_declaration sites", len(adds), 3)
    t = render(f["body"]).replace(" ", "")
    envl = sgrep.lets(f["body"])
    okp = False
    for n, b in sgrep.find(f["body"], "for __n in parameters.iter() { __body }"):
        okp = okp or any(bb.get("__m") == b["__n"] for _x, bb in sgrep.find(n, "for __v in env.get_version_range(__m).expect(__msg) { __inner }")) or any(bb.get("__m") == b["__n"] for _x, bb in sgrep.find(n, "for __v in env.get_version_range(__m).unwrap() { __inner }"))
    ctx.check(R, "update_declarations/parameters-all-versions", okp, "every version in the parameter's version range gets a declaration", site(SI, f))
    okl = sgrep.has(f["body"], "env.get_version_range(__n).unwrap_or(0..1)") and (sgrep.has(f["body"], "for __v in __vs { __inner }", None) )
    ctx.check(R, "update_declarations/locals-all-versions", okl, "", site(SI, f))
    # ... and the loop that declares the versions of a local runs over that whole range: not a filtered, truncated or
    # otherwise narrowed copy of it (a version that is only read - the initial version of an array - needs its declaration too)
    from pathcond import find_path

    for a in adds:
        path = find_path(f["body"], a) or []
        loops = [parent for parent, _s, _c in path if parent["k"] == "For"]
        if not loops or "with_version" not in render(a["args"][0]) and not any("with_version" in render(v) for k_, v in envl.items() if k_ in render(a["args"][0])):
            continue
        lp = loops[-1]
        it = strip(lp["iter"])
        while it["k"] in ("Ref",) or (it["k"] == "MethodCall" and it["method"] in ("iter", "into_iter", "clone") and not it["args"]):
            it = strip(it.get("e") or it.get("recv"))
        if "parameters" in render(it) or any(render(strip(l2["iter"])).replace(" ", "").startswith("parameters") for l2 in loops[:-1]):
            continue
        src = it
        narrowed = []
        if it["k"] == "Path":
            defs = [l_ for l_ in walk(f["body"]) if l_["k"] == "Local" and l_["pat"]["k"] == "PIdent" and l_["pat"]["name"] == it["path"] and l_.get("init") is not None]
            src = strip(defs[-1]["init"]) if defs else it
            for m_ in walk(f["body"]):
                if m_["k"] == "MethodCall" and render(strip(m_["recv"])) == it["path"] and m_["method"] not in ("sort", "sort_unstable", "iter", "into_iter", "len", "is_empty", "clone"):
                    narrowed.append(m_["method"])
        env_w = {k_: v_ for k_, v_ in envl.items() if it["k"] != "Path" or k_ != it["path"]}
        whole = any(sgrep.match(sgrep.pattern(pt), src, {}, env_w) for pt in ("env.get_version_range(__n).unwrap_or(0..1).collect()", "env.get_version_range(__n).unwrap_or(0..1)", "env.get_version_range(__n).unwrap_or(0..1).collect::<Vec<_>>()"))
        ctx.check(R, "update_declarations/local-versions/whole-range", whole and not narrowed, "the versions declared are those of `%s`%s" % (render(src)[:120], (", then changed by %s" % narrowed) if narrowed else ""), site(SI, lp))
    for a in adds:
        cs = [fact_str(c).replace(" ", "") for c in (conditions_to(f["body"], a) or [])]
        arg = render(a["args"][0]).replace(" ", "")
        if "VariableType::Local" in arg and "parameters" in arg:
            ctx.ok(R, "update_declarations/parameter-declaration", arg[:80], site(SI, a))
        elif any("matches!" in c or "VariableType::Local" in c for c in cs if not c.startswith("!")):
            loopvars = [render(c[2]).replace("&", "").strip() for c in (conditions_to(f["body"], a) or []) if c[0] == "loop" and c[1] == "for"]
            lenv_a = sgrep.lets(f["body"])
            okv = any(sgrep.has(a["args"][0], "__n.with_version(%s)" % lv, lenv_a) or any(sgrep.match(sgrep.pattern("__n.with_version(%s)" % lv), lenv_a.get(x["path"], {"k": "?"}), {}) for x in walk(a["args"][0]) if x["k"] == "Path") for lv in loopvars)
            ctx.check(R, "update_declarations/local-declaration-versioned", okv, arg[:100], site(SI, a))
        else:
            ctx.check(R, "update_declarations/signals-and-components-unversioned", arg.startswith("&Declaration::new(name,"), arg[:100], site(SI, a))


def rule_environment(ctx, R="C14.8"):
    """The version environment by evaluation: its methods are run, on top of a reference scoped map, through sequences
    of `enter scope / leave scope / assign / read`; what a read sees must be the version assigned last in the current
    or an enclosing scope - never one assigned in a scope that has been left (a sibling branch) - and a fresh version
    must be one more than every version handed out for that name anywhere."""
    ctx.rule(R, "the version a read sees is the one assigned last in the current or an enclosing scope (None when there is none: versions handed out in a scope that has been left, e.g. a sibling branch, are not visible), and a new version is one more than every version handed out for the name anywhere")
    import passeval
    from finfun import NONE, S, Unsupported
    from passeval import O, Panic

    try:
        w = passeval.PassWorld([SI], SI)
    except Exception as e:  # noqa: BLE001
        return ctx.missing(R, "environment evaluator", str(e))
    w.lenient_opaque = True
    need = ["get_current_version", "get_next_version", "get_version_range", "add_variable_scope", "remove_variable_scope"]
    if any(("Environment", m_) not in w.methods for m_ in need) or "Environment" not in w.structs:
        return ctx.missing(R, "Environment methods")

    class Scoped:
        def __init__(self):
            self.blocks = [{}]
            self.obj = ("O", "var-environment", (("add_variable_block", ("PY", self.push)), ("remove_variable_block", ("PY", self.pop)), ("add_variable", ("PY", self.add)), ("get_variable", ("PY", self.get)),
                                                 ("get_mut_variable", ("PY", self.get)), ("has_variable", ("PY", lambda k_: self.get(k_) != NONE))))

        def push(self):
            self.blocks.append({})
            return ("T", ())

        def pop(self):
            if len(self.blocks) <= 1:
                raise Panic("scope closed that was never opened")
            self.blocks.pop()
            return ("T", ())

        def add(self, k_, v_):
            if not isinstance(k_, str):
                raise Unsupported("version key %r" % (k_,))
            self.blocks[-1][k_] = v_
            return ("T", ())

        def get(self, k_):
            for b_ in reversed(self.blocks):
                if k_ in b_:
                    return S("Some", b_[k_])
            return NONE

    names = {x: ("O", "name:" + x, (("name", x), ("suffix", NONE), ("version", NONE), ("clone", ("PY", (lambda x=x: names[x]))))) for x in "xyz"}
    programs = [
        [("next", "x"), ("push",), ("next", "x"), ("cur", "x"), ("pop",), ("cur", "x"), ("range", "x")],
        [("push",), ("next", "y"), ("pop",), ("cur", "y"), ("range", "y"), ("next", "y"), ("cur", "y")],
        [("next", "x"), ("push",), ("cur", "x"), ("next", "z"), ("pop",), ("cur", "z"), ("push",), ("next", "z"), ("cur", "z"), ("pop",), ("cur", "z"), ("cur", "x")],
        [("cur", "x"), ("range", "x"), ("push",), ("push",), ("next", "x"), ("pop",), ("cur", "x"), ("next", "x"), ("cur", "x"), ("pop",), ("cur", "x"), ("range", "x")],
    ]
    bad = {}
    n = 0
    M = {k_: w.methods[("Environment", k_)][0] for k_ in need}
    for prog in programs:
        scoped, glob = Scoped(), Scoped()
        fields = w.structs["Environment"]
        env = S("Environment", *[scoped.obj if f_ == "scoped_versions" else (glob.obj if f_ == "global_versions" else O(f_)) for f_ in fields])
        if "scoped_versions" not in fields or "global_versions" not in fields:
            return ctx.missing(R, "Environment fields", str(fields))
        ref_scopes, ref_max = [{}], {}
        trace = []
        try:
            for op in prog:
                trace.append(" ".join(op))
                if op[0] == "push":
                    w.call_fn(M["add_variable_scope"], [env])
                    ref_scopes.append({})
                elif op[0] == "pop":
                    w.call_fn(M["remove_variable_scope"], [env])
                    ref_scopes.pop()
                elif op[0] == "next":
                    got = w.call_fn(M["get_next_version"], [env, names[op[1]]])
                    want = ref_max.get(op[1], -1) + 1
                    ref_max[op[1]] = want
                    ref_scopes[-1][op[1]] = want
                    n += 1
                    if got != want:
                        bad.setdefault("fresh", "after `%s`: the new version of %s is %r, expected %d" % ("; ".join(trace), op[1], got, want))
                elif op[0] == "cur":
                    got = w.call_fn(M["get_current_version"], [env, names[op[1]]])
                    want = NONE
                    for sc in reversed(ref_scopes):
                        if op[1] in sc:
                            want = S("Some", sc[op[1]])
                            break
                    n += 1
                    if got != want:
                        bad.setdefault("current", "after `%s`: a read of %s sees %s, expected %s" % ("; ".join(trace[:-1]), op[1], "no version" if got == NONE else "version %r" % (got[2][0] if isinstance(got, tuple) and len(got) > 2 else got), "no version" if want == NONE else "version %d" % want[2][0]))
                elif op[0] == "range":
                    got = w.call_fn(M["get_version_range"], [env, names[op[1]]])
                    want = NONE if op[1] not in ref_max else S("Some", ("L", tuple(range(0, ref_max[op[1]] + 1))))
                    n += 1
                    if got != want:
                        bad.setdefault("range", "after `%s`: the versions of %s are %r, expected %r" % ("; ".join(trace[:-1]), op[1], got, want))
        except Unsupported as u:
            ctx.note("the SSA environment is outside the evaluator's subset (%s)" % u)
            return ctx.missing(R, "Environment evaluation", str(u))
        except Panic as p_:
            bad.setdefault("current", "after `%s`: panics (%s)" % ("; ".join(trace), p_))
    ctx.floor(R, "environment queries evaluated", n, 20)
    ctx.check(R, "Environment/read-sees-the-innermost-live-assignment", "current" not in bad, bad.get("current", "a read sees the version assigned last in the current or an enclosing scope, and nothing from a scope that was left"), SI)
    ctx.check(R, "Environment/fresh-version-is-new-everywhere", "fresh" not in bad, bad.get("fresh", "one more than every version handed out for the name, in whatever scope"), SI)
    ctx.check(R, "Environment/version-range-covers-every-version", "range" not in bad, bad.get("range", "0 ..= the largest version handed out"), SI)


def rule_provided_methods(ctx, R="C14.9"):
    ctx.rule(R, "the generic SSA algorithm that the other rules read (the provided methods of the SSA traits: variables_written, has_phi_statement, insert_phi_statement, update_phi_statements, insert_ssa_variables of a block) is the code that runs: no implementation of these traits overrides a provided method")
    from astlib import all_items

    TRAITS = "program_structure/src/static_single_assignment/traits.rs"
    provided = {}
    for _p, it in all_items(facts.ast().get(TRAITS) or []):
        if it["k"] == "Trait":
            provided[it["name"]] = {x["name"] for x in it.get("items", []) if x.get("k") == "Fn" and x.get("body") is not None}
    n_prov = sum(len(v) for v in provided.values())
    ctx.floor(R, "provided methods of the SSA traits", n_prov, 5)
    n_impl = 0
    for f in facts.ast():
        if f.startswith("program_structure_tests"):
            continue
        for _p, it in all_items(facts.ast().get(f) or []):
            if it["k"] != "Impl" or not it.get("trait"):
                continue
            tn = re.sub(r"<.*", "", str(it["trait"])).split("::")[-1].strip()
            if tn not in provided:
                continue
            n_impl += 1
            over = sorted(x["name"] for x in it.get("items", []) if x.get("k") == "Fn" and x["name"] in provided[tn])
            ctx.check(R, "impl %s for %s/no-provided-method-overridden" % (tn, it.get("self_ty") or it.get("ty") or "?"), not over, "overrides %s: the block-level algorithm the rules decide is replaced by this code" % over if over else "defines the required methods only", f)
    ctx.floor(R, "implementations of the SSA traits", n_impl, 3)


def run(ctx):
    rule_provided_methods(ctx)
    rule_plumbing(ctx)
    rule_phi_insertion(ctx)
    rule_pipeline(ctx)
    rule_phis_and_locals(ctx)
    rule_traversal(ctx)
    rule_keys(ctx)
    rule_declarations(ctx)
    rule_environment(ctx)
