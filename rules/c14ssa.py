"""The generic SSA driver by evaluation (C14.1, C14.2): `insert_phi_statements`, `insert_ssa_variables` (with its recursive
worker) and the provided methods of `SSABasicBlock` are run on small control-flow graphs - a diamond, an `if` without
`else`, a loop, a loop with a diamond inside, two diamonds in sequence, a nested loop - whose blocks, dominator tree and
environment are modelled: a block knows the variables it writes and the phi statements it has been given; renaming a
block makes a definition `(block, variable)` current in the innermost scope; updating the phi statements of a block
records, per phi variable, the definition that is current at that moment.

Expected (computed here from the graph alone, by the textbook definitions):
  * phi statements exactly at the iterated dominance frontier of the blocks that write the variable;
  * every block renamed exactly once, scopes balanced;
  * along every edge P -> S and for every phi variable v of S, the phi is handed the definition of v that reaches the
    end of P (the nearest one on P's dominator chain), or `none` when there is no such definition.
The order in which successors, frontier blocks and written variables are visited is not prescribed."""
import passeval
from finfun import NONE, S, Unsupported
from passeval import MSet, Panic, Sink

MOD = "program_structure/src/static_single_assignment/mod.rs"
TRAITS = "program_structure/src/static_single_assignment/traits.rs"

# name -> (successor lists, {block: variables written})
GRAPHS = {
    "diamond": ([[1, 2], [3], [3], []], {0: ["x"], 1: ["x", "y"], 2: ["y"]}),
    "if-without-else": ([[1, 2], [2], []], {0: ["x"], 1: ["x"]}),
    "loop": ([[1], [2, 3], [1], []], {0: ["i"], 2: ["i", "s"]}),
    "loop-with-diamond": ([[1], [2, 6], [3, 4], [5], [5], [1], []], {0: ["i", "a"], 3: ["a"], 4: ["b"], 5: ["i"]}),
    "two-diamonds": ([[1, 2], [3], [3], [4, 5], [6], [6], []], {1: ["x"], 4: ["x"], 5: ["y"]}),
    "nested-loops": ([[1], [2, 5], [3, 4], [2], [1], []], {0: ["i", "j"], 3: ["j"], 4: ["i"]}),
    "unassigned-on-one-path": ([[1, 2], [3], [3], []], {1: ["x"]}),
    # the join block assigns the variable itself (after the phi it still needs)
    "join-writes-too": ([[1, 2], [3], [3], []], {1: ["x"], 3: ["x"]}),
    # a diamond inside a loop whose branches write {a, b} and {b}: the join gets its phi for b first and the one for a
    # later - it has to be looked at again then, or the loop header never learns about a
    "two-writers-in-a-loop": ([[1], [2, 6], [3, 4], [5], [5], [1], []], {3: ["a", "b"], 4: ["b"]}),
    "two-writers-in-a-loop (other names)": ([[1], [2, 6], [3, 4], [5], [5], [1], []], {3: ["b", "a"], 4: ["a"]}),
}


def analyse(succ):
    n = len(succ)
    preds = [[] for _ in range(n)]
    for p, ss in enumerate(succ):
        for s_ in ss:
            preds[s_].append(p)
    dom = [set(range(n)) for _ in range(n)]
    dom[0] = {0}
    changed = True
    while changed:
        changed = False
        for b in range(1, n):
            new = set(range(n))
            for p in preds[b]:
                new &= dom[p]
            new |= {b}
            if new != dom[b]:
                dom[b], changed = new, True
    idom = [None] * n
    for b in range(1, n):
        strict = dom[b] - {b}
        idom[b] = [d for d in strict if all(o in dom[d] for o in strict)][0]
    children = [[c for c in range(n) if idom[c] == b] for b in range(n)]
    df = [set() for _ in range(n)]
    for b in range(n):
        if len(preds[b]) >= 2:
            for p in preds[b]:
                r = p
                while r != idom[b]:
                    df[r].add(b)
                    r = idom[r]
    return preds, idom, children, df


def expected_phis(succ, writes):
    preds, idom, children, df = analyse(succ)
    phis = {b: set() for b in range(len(succ))}
    for v in sorted({x for ws in writes.values() for x in ws}):
        work = [b for b, ws in writes.items() if v in ws]
        seen = set(work)
        while work:
            b = work.pop()
            for f in df[b]:
                if v not in phis[f]:
                    phis[f].add(v)
                    if f not in seen:
                        seen.add(f)
                        work.append(f)
    return phis


class Model:
    def __init__(self, succ, writes, phis=None, reverse=False):
        self.succ, self.writes = succ, writes
        self.reverse = reverse  # the order in which a block's written variables come out of their (hash) set
        self.n = len(succ)
        self.preds, self.idom, self.children, self.df = analyse(succ)
        self.phis = {b: list(sorted(phis[b])) if phis else [] for b in range(self.n)}
        self.scopes = [{}]
        self.renamed = []
        self.phi_updates = []  # (block, variable, definition current when the phi was updated)
        self.max_depth = 1
        self.blocks = [self.block(i) for i in range(self.n)]

    def current(self, v):
        for sc in reversed(self.scopes):
            if v in sc:
                return sc[v]
        return None

    def block(self, i):
        def written():
            return MSet(sorted(set(self.writes.get(i, [])) | set(self.phis[i]), reverse=self.reverse))

        def insert_phi(var, _env):
            self.phis[i].insert(0, var)
            return ("T", ())

        def rename(_env):
            self.renamed.append(i)
            for v in list(self.phis[i]) + [x for x in self.writes.get(i, []) if x not in self.phis[i]]:
                self.scopes[-1][v] = (i, v)
            return S("Ok", ("T", ()))

        def update(_env):
            for v in self.phis[i]:
                self.phi_updates.append((i, v, self.current(v)))
            return ("T", ())

        succs = MSet(list(self.succ[i]))
        return ("O", "block%d" % i, (
            ("index", i), ("variables_written", ("PY", written)), ("has_phi_statement", ("PY", lambda var: var in self.phis[i])),
            ("insert_phi_statement", ("PY", insert_phi)), ("successors", succs), ("predecessors", MSet(list(self.preds[i]))),
            ("insert_ssa_variables", ("PY", rename)), ("update_phi_statements", ("PY", update)),
        ))

    def tree(self):
        return ("O", "dominator-tree", (
            ("get_dominance_frontier", ("PY", lambda b: MSet(sorted(self.df[b])))),
            ("get_dominator_successors", ("PY", lambda b: MSet(list(self.children[b])))),
            ("get_immediate_dominator", ("PY", lambda b: NONE if self.idom[b] is None else S("Some", self.idom[b]))),
        ))

    def env(self):
        def add():
            self.scopes.append({})
            self.max_depth = max(self.max_depth, len(self.scopes))
            return ("T", ())

        def remove():
            if len(self.scopes) <= 1:
                raise Panic("remove_variable_scope without a scope")
            self.scopes.pop()
            return ("T", ())

        return ("O", "environment", (("add_variable_scope", ("PY", add)), ("remove_variable_scope", ("PY", remove))))

    def block_list(self):
        s_ = Sink()
        s_.items = list(self.blocks)
        return s_

    def reaching(self, p, v):
        b = p
        while b is not None:
            if v in self.phis[b] or v in self.writes.get(b, []):
                return (b, v)
            b = self.idom[b]
        return None


def world():
    w = passeval.PassWorld([MOD], MOD)
    w.lenient_opaque = True
    return w


def eval_phi_insertion():
    """-> first problem text or None"""
    w = world()
    fn = w.free.get("insert_phi_statements")
    if fn is None:
        raise Unsupported("insert_phi_statements not found")
    n = 0
    for name, (succ, writes) in [(k_ + o_, v_) for k_, v_ in GRAPHS.items() for o_ in ("", " [variables in reverse order]")]:
        m = Model(succ, writes, reverse=name.endswith("order]"))
        w.call_fn(fn, [m.block_list(), m.tree(), m.env()])
        n += 1
        want = expected_phis(succ, writes)
        got = {b: set(vs) for b, vs in m.phis.items()}
        for b in range(m.n):
            if len(m.phis[b]) != len(got[b]):
                return "%s: block %d is given two phi statements for the same variable (%s)" % (name, b, m.phis[b]), n
            if got[b] != want[b]:
                return "%s: block %d gets phi statements for %s, the iterated dominance frontier of the writes asks for %s" % (name, b, sorted(got[b]), sorted(want[b])), n
    return None, n


def eval_renaming():
    w = world()
    fn = w.free.get("insert_ssa_variables")
    if fn is None:
        raise Unsupported("insert_ssa_variables not found")
    n = 0
    for name, (succ, writes) in GRAPHS.items():
        m = Model(succ, writes, expected_phis(succ, writes))
        res = w.call_fn(fn, [m.block_list(), m.tree(), m.env()])
        n += 1
        if not (isinstance(res, tuple) and len(res) > 1 and res[1] == "Ok"):
            return "%s: the renaming returns %r" % (name, res), n
        if sorted(m.renamed) != list(range(m.n)):
            return "%s: blocks renamed: %s, every block is to be renamed exactly once" % (name, m.renamed), n
        if len(m.scopes) != 1:
            return "%s: %d variable scope(s) left open" % (name, len(m.scopes) - 1), n
        for s_ in range(m.n):
            for v in m.phis[s_]:
                want = sorted(repr(m.reaching(p, v)) for p in m.preds[s_])
                got = sorted(repr(d) for b, x, d in m.phi_updates if b == s_ and x == v)
                if got != want:
                    return "%s: the phi for `%s` in block %d is handed the definitions %s, its incoming edges carry %s (block, variable; None = not assigned on that path)" % (name, v, s_, got, want), n
    return None, n


def eval_block_methods():
    """the provided methods of SSABasicBlock on modelled statement lists -> {method: problem or None}"""
    from astlib import find_fn

    w = passeval.PassWorld([TRAITS], TRAITS)
    w.lenient_opaque = True
    out = {}

    def stmt(kind, tag, log, fail=False):
        def ensure(_env):
            log.append(("phi-updated", tag))
            return ("T", ())

        def rename(_env):
            log.append(("renamed", tag))
            return S("Err", ("O", "ssa-error", ())) if fail else S("Ok", ("T", ()))

        return ("O", "stmt:" + tag, (("is_phi_statement", kind == "phi"), ("ensure_phi_argument", ("PY", ensure)), ("insert_ssa_variables", ("PY", rename)),
                                     ("is_phi_statement_for", ("PY", lambda var: kind == "phi" and var == tag)), ("variables_written", ("PY", lambda: MSet([tag])))))

    def block(stmts, log):
        def prepend(s_):
            log.append(("prepended", s_))
            return ("T", ())

        return ("O", "block", (("index", 7), ("statements_mut", ("PY", lambda: passeval.Iter(list(stmts)))), ("statements", ("PY", lambda: passeval.Iter(list(stmts)))), ("prepend_statement", ("PY", prepend))))

    env = ("O", "environment", ())
    LISTS = [[], [("phi", "a")], [("other", "s")], [("phi", "a"), ("phi", "b"), ("other", "s"), ("other", "t")], [("phi", "a"), ("other", "s")]]
    f = find_fn(TRAITS, "update_phi_statements")
    if f is not None:
        bad = None
        for lst in LISTS:
            log = []
            w.call_fn(f, [block([stmt(k, t, log) for k, t in lst], log), env])
            want = [("phi-updated", t) for k, t in lst if k == "phi"]
            if log != want:
                bad = bad or "statements %s: ensure_phi_argument ran on %s, the phi statements are %s" % ([t for _k, t in lst], [t for _e, t in log], [t for _e, t in want])
        out["update_phi_statements"] = bad
    f = find_fn(TRAITS, "insert_ssa_variables", "SSABasicBlock")
    if f is not None:
        bad = None
        for lst in LISTS:
            log = []
            res = w.call_fn(f, [block([stmt(k, t, log) for k, t in lst], log), env])
            want = [("renamed", t) for _k, t in lst]
            if log != want or not (isinstance(res, tuple) and len(res) > 1 and res[1] == "Ok"):
                bad = bad or "statements %s: renamed %s, result %s" % ([t for _k, t in lst], [t for _e, t in log], res[1] if isinstance(res, tuple) and len(res) > 1 else res)
        log = []
        res = w.call_fn(f, [block([stmt("other", "s", log), stmt("other", "t", log, fail=True), stmt("other", "u", log)], log), env])
        if not (isinstance(res, tuple) and len(res) > 1 and res[1] == "Err") or log != [("renamed", "s"), ("renamed", "t")]:
            bad = bad or "an error of a statement is not returned at once: result %s after %s" % (res[1] if isinstance(res, tuple) and len(res) > 1 else res, log)
        out["insert_ssa_variables"] = bad
    f = find_fn(TRAITS, "variables_written", "SSABasicBlock")
    if f is not None:
        bad = None
        for lst in LISTS:
            got = w.call_fn(f, [block([stmt(k, t, []) for k, t in lst], [])])
            items = sorted(got.items) if isinstance(got, (MSet, Sink)) else None
            if items != sorted({t for _k, t in lst}):
                bad = bad or "statements %s: the variables written are %s (a phi statement writes its variable too: the block defines it from there on)" % (lst, items if items is not None else got)
        out["variables_written"] = bad
    f = find_fn(TRAITS, "insert_phi_statement")
    if f is not None:
        bad = None
        log = []
        w.stubs = {"new_phi_statement": lambda a: ("K", "new-phi", tuple(a))}
        try:
            w.call_fn(f, [block([stmt("other", "s", log)], log), "v", env])
        finally:
            w.stubs = {}
        okp = len(log) == 1 and log[0][0] == "prepended" and isinstance(log[0][1], tuple) and log[0][1][0] == "K" and log[0][1][2][:1] == ("v",)
        if not okp:
            bad = "the block is given %s, expected one phi statement for the variable put in front" % (log,)
        out["insert_phi_statement"] = bad
    f = find_fn(TRAITS, "has_phi_statement")
    if f is not None:
        bad = None
        for lst in LISTS:
            for var in ("a", "b", "s", "zz"):
                got = w.call_fn(f, [block([stmt(k, t, []) for k, t in lst], []), var])
                want = any(k == "phi" and t == var for k, t in lst)
                if got is not want:
                    bad = bad or "statements %s, variable %s: %s" % (lst, var, got)
        out["has_phi_statement"] = bad
    return out


_CACHE = {}


def _run(part, f):
    if part not in _CACHE:
        try:
            _CACHE[part] = ("ok", f())
        except Unsupported as u:
            _CACHE[part] = ("unsupported", str(u))
        except Panic as p_:
            _CACHE[part] = ("panic", str(p_))
    return _CACHE[part]


def rule(ctx, R, part):
    """part: 'phis' | 'renaming' | 'block-methods'.  True when decided."""
    from astlib import find_fn, site

    if part == "block-methods":
        st, res = _run(part, eval_block_methods)
        if st == "unsupported":
            ctx.note("the provided methods of SSABasicBlock are outside the evaluator's subset (%s): shape obligations apply" % res)
            return False
        if st == "panic":
            ctx.bad(R, "SSABasicBlock/provided-methods/no-panic", res, TRAITS)
            return True
        texts = {"update_phi_statements": "ensure_phi_argument runs on every phi statement of the block (they precede all others) and on nothing else", "insert_ssa_variables": "every statement is renamed, in order; the first error is returned at once",
                 "has_phi_statement": "true exactly when a phi statement for that variable is in the block", "variables_written": "the variables of every statement, phi statements included",
                 "insert_phi_statement": "one new phi statement for the variable is put in front of the block"}
        for k_, v_ in res.items():
            ctx.check(R, "SSABasicBlock::%s/evaluated" % k_, v_ is None, v_ or texts[k_], TRAITS)
        return len(res) == 5
    fname = "insert_phi_statements" if part == "phis" else "insert_ssa_variables_impl"
    fn = find_fn(MOD, fname)
    st0 = site(MOD, fn) if fn else None
    st, res = _run(part, eval_phi_insertion if part == "phis" else eval_renaming)
    if st == "unsupported":
        ctx.note("%s is outside the evaluator's subset (%s): shape obligations apply" % (fname, res))
        return False
    if st == "panic":
        ctx.bad(R, "%s/evaluated/no-panic" % fname, "panics on a model graph: %s" % res, st0)
        return True
    problem, n = res
    if part == "phis":
        ctx.check(R, "insert_phi_statements/evaluated/phis-at-the-iterated-dominance-frontier", problem is None, problem or "%d graphs: one phi statement per variable exactly in the blocks of the iterated dominance frontier of its writes" % n, st0)
    else:
        ctx.check(R, "insert_ssa_variables/evaluated/each-edge-hands-its-reaching-definition-to-the-phi", problem is None, problem or "%d graphs: every block renamed once, scopes balanced, and along every edge the phi statements of the target are given the definition that reaches the end of the source" % n, st0)
    return True
