"""The analysis runner by evaluation (C03.1): `analyze_templates` / `analyze_functions` are run, with the runner's own
caching methods (`cache_*`, `take_*`, `append_*_reports`, `take_*_reports`, `replace_*`), on a runner that knows two
templates and two functions.  CFG generation and the analysis passes are modelled: generating the CFG of a definition
produces two lifting reports and either a graph or an error report; every pass produces one report per graph it is
given.  Worlds: lifting succeeds / fails, the definition was (or was not) already referenced by another definition
before its own analysis (`AnalysisContext::template` / `function`, once or twice).

Expected, for every definition: exactly one `write_reports`, and what is written is exactly what was produced for that
definition - its lifting reports (once, however often it was referenced), the error report if lifting failed, and one
report per pass if it succeeded - each report once: what a repeated lifting produces again is not displayed again;
CFG generation runs once per definition unless a pass asks for a graph that is out of the cache."""
import passeval
from finfun import S, Unsupported
from passeval import MMap, Panic, Sink

RUN = "program_analysis/src/analysis_runner.rs"
LAST_CACHE = [None]  # the graph cache of the kind analysed, after the last run()
NAMES = {"template": ("A", "B"), "function": ("f", "g")}


def _world():
    w = passeval.PassWorld(["program_analysis/src/analysis_context.rs", RUN], RUN)
    w.lenient_opaque = True
    if "AnalysisRunner" not in w.structs:
        raise Unsupported("struct AnalysisRunner not found")
    w.free.pop("generate_cfg", None)
    return w


def _runner(w):
    asts = {}
    vals = {}
    for f_, ty in w.struct_fields["AnalysisRunner"]:
        if f_.endswith("_asts"):
            kind = f_[:-5]
            m = MMap()
            for n in NAMES.get(kind, ()):
                ast = ("O", "ast:%s:%s" % (kind, n), (("get_file_id", 0),))
                asts[(kind, n)] = ast
                m.pairs.append([n, ast])
            vals[f_] = m
        elif f_.endswith("_cfgs"):
            vals[f_] = MMap()
        elif f_.endswith("_reports"):
            m = MMap()
            m.value_type = "ReportCollection"
            vals[f_] = m
        elif f_ == "file_library":
            vals[f_] = ("O", "file_library", (("is_user_input", True),))
        elif f_ == "libraries":
            vals[f_] = Sink()
        else:
            vals[f_] = ("O", f_, ())
    return S("AnalysisRunner", *[vals[f_] for f_ in w.structs["AnalysisRunner"]]), asts


def run(kind, lifting, referenced, relift=False):
    """lifting: 'ok' | 'fails' | 'first-fails' (only the first definition fails).  relift: the first analysis pass asks the
    runner for the first definition (AnalysisContext::template / function) while it runs - for the definition under
    analysis itself (whose graph is taken out of the cache then) and for every later one.
    -> (writes, generated, asts): writes = list of report lists handed to write_reports; generated = asts lifted, in order"""
    w = _world()
    runner, asts = _runner(w)
    generated = []
    first = NAMES[kind][0]

    def lifting_ok_for(ast):
        if lifting == "ok":
            return True
        if lifting == "fails":
            return False
        return ast is not asts[(kind, first)]

    def generate_cfg(args):
        ast, _curve, reports = args[0], args[1], args[2]
        if not isinstance(reports, Sink):
            raise Unsupported("generate_cfg is handed %r as its report collection" % (reports,))
        generated.append(ast)
        reports.items.append(("K", "lifting-report-1", (ast,)))
        reports.items.append(("K", "lifting-report-2", (ast,)))
        if lifting_ok_for(ast):
            return S("Ok", ("K", "cfg", (ast,)))
        return S("Err", ("K", "error-report", (ast,)))

    def passes(_args):
        def mk(i):
            def run_pass(ctx_, cfg):
                if relift and i == 0:
                    w.call_method(ctx_, kind, [first])  # e.g. a template that instantiates the first one (or itself)
                s_ = Sink()
                s_.items.append(("K", "pass-report-%d" % i, (cfg,)))
                return s_
            return ("PY", run_pass)
        return ("L", (mk(0), mk(1)))

    w.stubs = {"generate_cfg": generate_cfg, "get_analysis_passes": passes}
    writes = []

    def write_reports(reports, _files):
        items = reports.items if isinstance(reports, Sink) else (list(reports[1]) if isinstance(reports, tuple) and reports and reports[0] == "L" else None)
        if items is None:
            raise Unsupported("write_reports is handed %r" % (reports,))
        writes.append(list(items))
        return len(items)

    writer = ("O", "writer", (("write_message", ("PY", lambda *_a: ("T", ()))), ("write_reports", ("PY", write_reports))))
    for _ in range(referenced):
        # another definition's pass asks for this one (AnalysisContext::template / function)
        w.call_method(runner, kind, [first])
    w.call_method(runner, "analyze_%ss" % kind, [writer, True])
    cache = w.struct_field(runner, kind + "_cfgs") if (kind + "_cfgs") in w.structs["AnalysisRunner"] else None
    LAST_CACHE[0] = [(k_, v_) for k_, v_ in cache.pairs] if isinstance(cache, MMap) else None
    return writes, generated, asts


def expected(kind, lifting, asts):
    want = []
    for n in NAMES[kind]:
        ast = asts[(kind, n)]
        r = [("K", "lifting-report-1", (ast,)), ("K", "lifting-report-2", (ast,))]
        if lifting == "ok" or (lifting == "first-fails" and n != NAMES[kind][0]):
            cfg = ("K", "cfg", (ast,))
            r += [("K", "pass-report-0", (cfg,)), ("K", "pass-report-1", (cfg,))]
        else:
            r += [("K", "error-report", (ast,))]
        want.append(r)
    return want


def _key(r):
    return repr(r)


def rule_cache(ctx, R):
    """after the analysis whatever the graph cache holds is a successfully lifted definition's own graph under its own
    name (a definition whose lifting failed has no entry).  True when decided."""
    from astlib import find_fn, site

    decided = True
    for kind in ("template", "function"):
        fn = find_fn(RUN, "analyze_" + kind)
        st = site(RUN, fn) if fn else None
        for lifting, relift in (("ok", False), ("fails", False), ("first-fails", False), ("ok", True)):
            tag = "AnalysisRunner/%s/lifting-%s%s" % (kind, {"ok": "succeeds", "fails": "fails", "first-fails": "of-the-first-definition-fails"}[lifting], "/a-pass-asks-for-the-first-definition" if relift else "")
            try:
                _w, _g, asts = run(kind, lifting, 0, relift)
            except Unsupported as u:
                ctx.note("the analysis runner is outside the evaluator's subset (%s, %s): shape obligations apply" % (tag, u))
                decided = False
                continue
            except Panic as p_:
                ctx.bad(R, tag + "/no-panic", "the runner panics: %s" % p_, st)
                continue
            cache = LAST_CACHE[0]
            want = sorted((n, repr(("K", "cfg", (asts[(kind, n)],)))) for n in NAMES[kind] if lifting == "ok" or (lifting == "first-fails" and n != NAMES[kind][0]))
            got = sorted((k_, repr(v_)) for k_, v_ in cache) if cache is not None else None
            # (a graph that is not put back is only regenerated at the next reference: harmless; a graph under another
            # definition's name, or one for a failed lifting, is not)
            okc = got is not None and all(x in want for x in got)
            ctx.check(R, tag + "/graphs-in-the-cache-are-under-their-own-names", okc, "cache after the analysis: %s; the lifted definitions are %s" % ([k_ for k_, _v in got] if got is not None else "?", [k_ for k_, _v in want]) if not okc else "whatever is cached after the analysis is a lifted definition's own graph under its own name", st)
    return decided


def rule(ctx, R, only=None):
    """Returns True when the evaluation decided every world (of those whose name contains `only`)."""
    from astlib import find_fn, site

    decided = True
    for kind in ("template", "function"):
        fn = find_fn(RUN, "analyze_%ss" % kind)
        st = site(RUN, fn) if fn else None
        for lifting, referenced, relift in [(l_, r_, False) for l_ in ("ok", "fails") for r_ in (0, 1, 2)] + [(l_, 0, True) for l_ in ("ok", "first-fails")]:
            if True:
                lifting_ok = lifting == "ok"
                if only is not None and ("lifting-" + {"ok": "succeeds", "fails": "fails", "first-fails": "of-the-first-definition-fails"}[lifting]).find(only) < 0:
                    continue
                tag = "AnalysisRunner/%s/lifting-%s/%s" % (kind, {"ok": "succeeds", "fails": "fails", "first-fails": "of-the-first-definition-fails"}[lifting], ("referenced-%d-times-before" % referenced) if not relift else "a-pass-asks-for-the-first-definition")
                try:
                    writes, generated, asts = run(kind, lifting, referenced, relift)
                except Unsupported as u:
                    ctx.note("the analysis runner is outside the evaluator's subset (%s, %s): shape obligations apply" % (tag, u))
                    decided = False
                    continue
                except Panic as p_:
                    ctx.bad(R, tag + "/no-panic", "the runner panics: %s" % p_, st)
                    continue
                want = expected(kind, lifting, asts)
                got = sorted(sorted(_key(r) for r in w_) for w_ in writes)
                exp = sorted(sorted(_key(r) for r in w_) for w_ in want)
                det = "one write per definition with its lifting reports once, then %s" % ("one report per pass" if lifting_ok else "the lifting error")
                if got != exp:
                    missing = [r for w_ in exp for r in w_ if sum(x.count(r) for x in got) < sum(x.count(r) for x in exp)]
                    extra = [r for w_ in got for r in w_ if sum(x.count(r) for x in got) > sum(x.count(r) for x in exp)]
                    det = "%d write(s); produced but not written: %s; written more often than produced: %s" % (len(writes), sorted(set(missing))[:4], sorted(set(extra))[:4])
                ctx.check(R, tag + "/written-is-exactly-what-was-produced", got == exp, det, st)
                per = {}
                for a in generated:
                    per[id(a)] = per.get(id(a), 0) + 1
                if not relift:
                    ctx.check(R, tag + "/lifted-once", all(v == 1 for v in per.values()) and len(per) == len(NAMES[kind]), "CFG generation ran %s time(s) per definition" % sorted(per.values()), st)
    return decided
