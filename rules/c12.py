"""C12 The control-flow graph of every definition is well formed."""
import re

import facts
from astlib import calls, find_fn, fns_in_file, last, method_calls, pat_paths, render, site, strip, walk
from pathcond import conditions_to, fact_str, facts_str, let_env
import alpha
import copy

VS_ROLES = [("stmt", "param", 0), ("loop_depth", "param", 1), ("env", "param", 2), ("reports", "param", 3), ("basic_blocks", "param", 4),
            ("current_index", "let", "basic_blocks.last().index()")]
ARM_ROLES = {
    "While": [("meta", "field", "While", "meta"), ("cond", "field", "While", "cond"), ("while_body", "field", "While", "stmt"),
              ("header_index", "let", "current_index + 1", "optional"),
              ("pred_set", "let", "visit_statement(while_body, __d, __e, __r, __b)?")],
    "IfThenElse": [("meta", "field", "IfThenElse", "meta"), ("cond", "field", "IfThenElse", "cond"), ("if_case", "field", "IfThenElse", "if_case"), ("else_case", "field", "IfThenElse", "else_case"),
                   ("if_pred_set", "let", "visit_statement(if_case, __d, __e, __r, __b)?"),
                   ("else_case", "somelet", "else_case", "optional"),
                   ("else_pred_set", "let", "visit_statement(else_case, __d, __e, __r, __b)?")],
    "Block": [("stmts", "field", "Block", "stmts"), ("pred_set", "let", "IndexSet::new()"), ("stmt", "forvar", "stmts")],
}
CB_ROLES = [("basic_blocks", "param", 0), ("meta", "param", 1), ("pred_set", "param", 2), ("loop_depth", "param", 3),
            ("j", "let", "basic_blocks.len()"), ("i", "forvar", "pred_set"),
            ("true_index", "field", "IfThenElse", "true_index"), ("false_index", "field", "IfThenElse", "false_index")]


def canon_visit_statement(ctx, R):
    fn = find_fn(LF, "visit_statement")
    if fn is None:
        ctx.missing(R, "visit_statement")
        return None
    from astlib import inline_helpers

    # private helpers factored out of an arm are read as part of it (the recursive visitor and the block constructor
    # are the vocabulary of the rules and stay calls)
    fn = inline_helpers(fn, LF, exclude=("visit_statement", "complete_basic_block", "build_basic_blocks"))
    f, miss = alpha.canon(fn, VS_ROLES)
    if miss:
        ctx.missing(R, "visit_statement/roles", "cannot identify %s" % miss)
        return None
    # per-arm roles
    ms = [m for m in walk(f["body"]) if m["k"] == "Match" and render(strip(m["scrut"])) == "stmt"]
    if ms:
        for a in ms[0]["arms"]:
            for v in [last(p) for p in pat_paths(a["pat"])]:
                if v in ARM_ROLES:
                    pseudo = {"body": a, "sig": {"inputs": []}}
                    _f2, miss2 = alpha.canon(pseudo, ARM_ROLES[v])
                    # canon works on a copy: redo in place
                    for role in ARM_ROLES[v]:
                        actual = alpha.discover(pseudo, role)
                        if actual is None:
                            if role[-1] != "optional":
                                ctx.missing(R, "visit_statement/%s/roles" % v, "cannot identify `%s`" % role[0])
                            continue
                        if actual != role[0]:
                            alpha.rename(a, {actual: role[0]})
    return f


def canon_complete(ctx, R):
    fn = find_fn(LF, "complete_basic_block")
    if fn is None:
        ctx.missing(R, "complete_basic_block")
        return None
    f, miss = alpha.canon(fn, CB_ROLES)
    if miss:
        ctx.missing(R, "complete_basic_block/roles", "cannot identify %s" % miss)
        return None
    return f

TITLE = "CFG well-formedness"
LEVEL_TEXT = (
    "edges are inserted only as mirrored successor/predecessor pairs, for every predecessor, and nowhere outside the lifting; a"
    " branch statement is followed by closing its block; branch targets name the blocks created next; fall-through sets are"
    " built exactly from the branches' ends; loop depth arguments; the false target is patched once; statements are lifted in source"
    " order; the block vector and the statements placed in it reach the graph unchanged."
)
NOT_DECIDED = "reachability of every block, at most two successors and `i dominates j implies i <= j` as graph facts for every program (they follow from the construction discipline checked here, not decided separately)."
TRUSTED = ["syn parser", "path-condition extractor"]

LF = "program_structure/src/control_flow_graph/lifting.rs"
BB = "program_structure/src/control_flow_graph/basic_block.rs"


def line_of(n):
    return n.get("mline", n.get("line", 0))


def arm_of(fn, variant):
    ms = [m for m in walk(fn["body"]) if m["k"] == "Match" and render(strip(m["scrut"])) == "stmt"]
    if not ms:
        return None
    for a in ms[0]["arms"]:
        if variant in [last(p) for p in pat_paths(a["pat"])]:
            return a
    return None


def in_source_order(body, call, arm_pat, field):
    """Is `call` made once per element of the arm's `field`, in the order of the field?  True when the innermost loop
    around it is `for x in <field>` (modulo `&`, `.iter()`, `.iter_mut()`, `.into_iter()`) or the closure of
    `<field>.iter().for_each / try_for_each / try_fold(..)`; a reordered, filtered, partitioned, reversed or chained
    iterator is not.  returns (ok, text of what is iterated)"""
    import a10
    from pathcond import find_path

    binds, _rest = a10.pattern_bindings(arm_pat)
    name = binds.get(field)
    if not name or name == "<pattern>":
        return False, "`%s` is not bound" % field

    def plain(e):
        e = strip(e)
        while True:
            if e["k"] == "Ref":
                e = strip(e["e"])
            elif e["k"] == "MethodCall" and e["method"] in ("iter", "iter_mut", "into_iter", "as_slice") and not e["args"]:
                e = strip(e["recv"])
            else:
                break
        return e

    path = find_path(body, call) or []
    it = None
    for parent, _slot, child in path:
        if parent["k"] == "For":
            it = parent["iter"]
        elif parent["k"] == "MethodCall" and parent["method"] in ("for_each", "try_for_each", "try_fold", "fold") and any(child is a_ for a_ in parent["args"]):
            it = parent["recv"]
    if it is None:
        return False, "not inside a loop over `%s`" % name
    pe = plain(it)
    return (pe["k"] == "Path" and pe["path"] == name), render(it)[:100]


def unconditional(body, node, allow=()):
    """facts guarding node inside body, minus loops and allowed ones"""
    cs = conditions_to(body, node) or []
    return [fact_str(c) for c in cs if c[0] != "loop" and not any(re.search(a, fact_str(c).replace(" ", "")) for a in allow)]


def rule_edges(ctx):
    R = "C12.1"
    ctx.rule(R, "every successor edge is inserted together with the mirrored predecessor edge, for every member of the predecessor set, unconditionally; edges are inserted nowhere else")
    n_pairs = 0
    for fname in ("visit_statement", "complete_basic_block"):
        fn = canon_visit_statement(ctx, R) if fname == "visit_statement" else canon_complete(ctx, R)
        if fn is None:
            continue
        succ = sorted(method_calls(fn["body"], "add_successor"), key=line_of)
        pred = sorted(method_calls(fn["body"], "add_predecessor"), key=line_of)
        ctx.check(R, fname + "/paired-count", len(succ) == len(pred) and len(succ) >= 1, "%d add_successor vs %d add_predecessor" % (len(succ), len(pred)), site(LF, fn))
        for s, p in zip(succ, pred):
            n_pairs += 1
            # basic_blocks[a].add_successor(b) ; basic_blocks[b].add_predecessor(a)
            ra, rb = strip(s["recv"]), strip(p["recv"])
            a = render(strip(ra["index"])).lstrip("*") if ra["k"] == "Index" else "?"
            b = render(strip(s["args"][0])).lstrip("*")
            b2 = render(strip(rb["index"])).lstrip("*") if rb["k"] == "Index" else "?"
            a2 = render(strip(p["args"][0])).lstrip("*")
            ctx.check(R, "%s/mirror[%s->%s]" % (fname, a, b), a == a2 and b == b2, "add_successor: %s -> %s ; add_predecessor: %s <- %s" % (a, b, b2, a2), site(LF, s))
            # same loop over the predecessor set, unconditional
            for node, nm in ((s, "add_successor"), (p, "add_predecessor")):
                cs = conditions_to(fn["body"], node) or []
                loops = [c for c in cs if c[0] == "loop"]
                inner = loops[-1] if loops else None
                over = render(inner[3]).replace(" ", "") if inner else ""
                ctx.check(R, "%s/%s[%s->%s]/for-every-predecessor" % (fname, nm, a, b), inner is not None and over in ("pred_set", "&pred_set", "pred_set.iter()"), "edge insertion loops over `%s`" % over, site(LF, node))
                # conditions between the loop and the call
                idx = cs.index(inner) if inner else -1
                extra = [fact_str(c) for c in cs[idx + 1:]] if inner else ["?"]
                ctx.check(R, "%s/%s[%s->%s]/unconditional" % (fname, nm, a, b), not extra, "edge skipped under: %s" % extra, site(LF, node))
    ctx.floor(R, "mirrored pairs", n_pairs, 2)
    # who may call the mutators
    callers = set()
    for f in facts.ast():
        if f.startswith("program_structure_tests"):
            continue
        for q, fn in fns_in_file(f):
            for m in ("add_successor", "add_predecessor"):
                if any(True for _ in method_calls(fn["body"], m)) and not (q == "BasicBlock" and fn["name"] == m):
                    callers.add("%s::%s" % (f.rsplit("/", 1)[-1], fn["name"]))
    ctx.check(R, "edge-mutators/who-may-call", callers <= {"lifting.rs::visit_statement", "lifting.rs::complete_basic_block"}, "callers: %s" % sorted(callers))
    raw = set()
    for f in facts.ast():
        if f.startswith("program_structure_tests"):
            continue
        for q, fn in fns_in_file(f):
            if any(True for _ in calls(fn["body"], "from_raw_parts")) and "BasicBlock" in render(fn["body"]):
                raw.add("%s::%s" % (f.rsplit("/", 1)[-1], fn["name"]))
    ctx.check(R, "BasicBlock::from_raw_parts/no-caller-outside-tests", not raw, "callers: %s" % sorted(raw))
    # the setters themselves
    for m, fld in (("add_successor", "successors"), ("add_predecessor", "predecessors")):
        fn = find_fn(BB, m, "BasicBlock")
        if fn is None:
            ctx.missing(R, "BasicBlock::" + m)
            continue
        t = render(fn["body"]).replace(" ", "")
        ctx.check(R, "BasicBlock::%s/inserts-into-%s" % (m, fld), ("self.%s.insert(" % fld) in t, t[:120], site(BB, fn))


def rule_lifting(ctx):
    R = "C12.2"
    ctx.rule(R, "branch statements end their block and name the blocks created next: in the While arm the header is created unconditionally, the branch is appended to it with true target = the body block created right after, the body's ends are linked back to the header and the header alone falls through; in the If arm the true target is the block created next, each branch contributes its own ends (or its last block when it has none), a missing else contributes the branching block")
    fn = canon_visit_statement(ctx, R)
    if fn is None:
        return
    le = let_env(fn["body"])
    ci = le.get("current_index")
    ctx.check(R, "visit_statement/current-index-is-last-block", ci is not None and render(strip(ci)).replace(" ", "") == "basic_blocks.last().index()", render(ci) if ci else "?", site(LF, fn))
    # ---------------- While
    arm = arm_of(fn, "While")
    if arm is None:
        ctx.missing(R, "While arm")
    else:
        body = arm["body"]
        comp = sorted(calls(body, "complete_basic_block"), key=line_of)
        app = sorted(method_calls(body, "append_statement"), key=line_of)
        vis = sorted(calls(body, "visit_statement"), key=line_of)
        ok = len(comp) == 2 and len(app) == 1 and len(vis) == 1
        ctx.check(R, "While/shape", ok, "complete_basic_block x%d, append_statement x%d, visit_statement x%d" % (len(comp), len(app), len(vis)), site(LF, arm))
        if ok:
            order = line_of(comp[0]) < line_of(app[0]) < line_of(comp[1]) < line_of(vis[0])
            ctx.check(R, "While/order", order, "expected: close current block (header) < append branch < open body block < visit body", site(LF, arm))
            for i, c in enumerate(comp):
                ex = unconditional(body, c)
                ctx.check(R, "While/block-%d-created-unconditionally" % (i + 1), not ex, "created only under %s: block indices no longer match current_index + %d" % (ex, i + 1), site(LF, c))
            le2 = let_env(body)

            def resolve(e, at=None):
                e = strip(e)
                for _ in range(4):
                    if e["k"] == "Path" and e["path"] in le2:
                        e = strip(le2[e["path"]])
                return render(e).replace(" ", "")

            # header preds = {current_index}; body preds = {header_index}
            p0 = resolve_pred(comp[0], body)
            p1 = resolve_pred(comp[1], body)
            ctx.check(R, "While/header-follows-current-block", p0 == "HashSet::from([current_index])", "header predecessors: %s" % p0, site(LF, comp[0]))
            ctx.check(R, "While/body-follows-header", p1 in ("HashSet::from([header_index])", "HashSet::from([(current_index+1)])"), "body predecessors: %s" % p1, site(LF, comp[1]))
            hdr = le2.get("header_index")
            ctx.check(R, "While/header-index", (hdr is not None and render(strip(hdr)).replace(" ", "") == "(current_index+1)") or (hdr is None and "header_index" not in render(body)), render(hdr) if hdr else "?", site(LF, arm))
            st = [n for n in walk(app[0]) if n["k"] == "Struct" and last(n["path"]) == "IfThenElse"]
            if len(st) == 1:
                f = {x["name"]: render(strip(x["e"])).replace(" ", "") for x in st[0]["fields"]}
                ctx.check(R, "While/true-target-is-body", f.get("true_index") == "(current_index+2)", "true_index: %s" % f.get("true_index"), site(LF, st[0]))
                ctx.check(R, "While/false-target-patched-later", f.get("false_index") == "None", "false_index: %s" % f.get("false_index"), site(LF, st[0]))
                ctx.check(R, "While/branch-condition", f.get("cond", "").startswith("cond.try_lift("), "cond: %s" % f.get("cond"), site(LF, st[0]))
            else:
                ctx.missing(R, "While/branch-statement")
            # loop depth
            d0 = render(strip(comp[0]["args"][-1])).replace(" ", "")
            d1 = render(strip(comp[1]["args"][-1])).replace(" ", "")
            dv = render(strip(vis[0]["args"][1])).replace(" ", "")
            ctx.check(R, "While/loop-depth", d0 == "loop_depth" and d1 == "(loop_depth+1)" and dv == "(loop_depth+1)", "header %s, body block %s, body visit %s" % (d0, d1, dv), site(LF, arm))
            ctx.check(R, "While/visits-the-body", render(strip(vis[0]["args"][0])) == "while_body", render(vis[0]["args"][0]), site(LF, vis[0]))
            # empty end set -> last block
            rule_ends(ctx, R, "While", body, "pred_set")
            # back edges to the header
            succ = list(method_calls(body, "add_successor"))
            okb = len(succ) == 1 and render(strip(succ[0]["args"][0])) == "header_index"
            ctx.check(R, "While/back-edges-to-header", okb, render(succ[0])[:80] if succ else "no back edge", site(LF, arm))
            # result
            tails = result_exprs(body)
            ctx.check(R, "While/falls-through-from-header-only", tails == ["Ok(HashSet::from([header_index]))"], "returns %s" % tails, site(LF, arm))
            rule_no_removal(ctx, R, "While", body)
    # ---------------- IfThenElse
    arm = arm_of(fn, "IfThenElse")
    if arm is None:
        ctx.missing(R, "IfThenElse arm")
    else:
        body = arm["body"]
        comp = sorted(calls(body, "complete_basic_block"), key=line_of)
        app = sorted(method_calls(body, "append_statement"), key=line_of)
        vis = sorted(calls(body, "visit_statement"), key=line_of)
        ok = len(comp) == 2 and len(app) == 1 and len(vis) == 2
        ctx.check(R, "IfThenElse/shape", ok, "complete_basic_block x%d, append_statement x%d, visit_statement x%d" % (len(comp), len(app), len(vis)), site(LF, arm))
        if ok:
            ctx.check(R, "IfThenElse/order", line_of(app[0]) < line_of(comp[0]) < line_of(vis[0]) < line_of(comp[1]) < line_of(vis[1]), "expected: append branch < open true block < visit true branch < open false block < visit false branch", site(LF, arm))
            ex = unconditional(body, app[0])
            ctx.check(R, "IfThenElse/branch-appended-unconditionally", not ex, str(ex), site(LF, app[0]))
            ex = unconditional(body, comp[0])
            ctx.check(R, "IfThenElse/true-block-created-unconditionally", not ex, "created only under %s" % ex, site(LF, comp[0]))
            ex = unconditional(body, comp[1], allow=(r"^\(letSome\(else_case\)=else_case\)$",))
            ctx.check(R, "IfThenElse/false-block-created-iff-else", not ex and any("else_case" in fact_str(c) for c in (conditions_to(body, comp[1]) or [])), "conditions: %s" % facts_str(conditions_to(body, comp[1]) or []), site(LF, comp[1]))
            for i, c in enumerate(comp):
                p = resolve_pred(c, body)
                ctx.check(R, "IfThenElse/branch-block-%d-follows-branching-block" % (i + 1), p == "HashSet::from([current_index])", "predecessors: %s" % p, site(LF, c))
                d = render(strip(c["args"][-1])).replace(" ", "")
                ctx.check(R, "IfThenElse/loop-depth-%d" % (i + 1), d == "loop_depth", d, site(LF, c))
            for i, v in enumerate(vis):
                ctx.check(R, "IfThenElse/visit-%d" % (i + 1), render(strip(v["args"][0])) == ("if_case", "else_case")[i] and render(strip(v["args"][1])) == "loop_depth", render(v)[:80], site(LF, v))
            st = [n for n in walk(app[0]) if n["k"] == "Struct" and last(n["path"]) == "IfThenElse"]
            if len(st) == 1:
                f = {x["name"]: render(strip(x["e"])).replace(" ", "") for x in st[0]["fields"]}
                ctx.check(R, "IfThenElse/true-target-is-next-block", f.get("true_index") == "(current_index+1)", "true_index: %s" % f.get("true_index"), site(LF, st[0]))
                ctx.check(R, "IfThenElse/false-target-patched-later", f.get("false_index") == "None", "false_index: %s" % f.get("false_index"), site(LF, st[0]))
            rule_ends(ctx, R, "IfThenElse/true", body, "if_pred_set")
            rule_ends(ctx, R, "IfThenElse/false", body, "else_pred_set")
            tails = sorted(result_exprs(body))
            want = sorted(["Ok(if_pred_set.union(&else_pred_set).cloned().collect())", "Ok(if_pred_set)"])
            ctx.check(R, "IfThenElse/fall-through-set", tails == want, "returns %s" % tails, site(LF, arm))
            ins = [m for m in method_calls(body, "insert") if render(strip(m["recv"])) == "if_pred_set" and render(strip(m["args"][0])) == "current_index"]
            okk = len(ins) == 1 and any(fact_str(c).replace(" ", "") == "(letNone=else_case)" for c in (conditions_to(body, ins[0]) or []))
            ctx.check(R, "IfThenElse/no-else-falls-through-from-branching-block", okk, "if_pred_set.insert(current_index) must happen exactly when there is no else branch", site(LF, arm))
            rule_no_removal(ctx, R, "IfThenElse", body)
    # ---------------- Block
    arm = arm_of(fn, "Block")
    if arm is None:
        ctx.missing(R, "Block arm")
    else:
        body = arm["body"]
        comp = list(calls(body, "complete_basic_block"))
        vis = list(calls(body, "visit_statement"))
        ok = len(comp) == 1 and len(vis) == 1
        ctx.check(R, "Block/shape", ok, "complete x%d visit x%d" % (len(comp), len(vis)), site(LF, arm))
        if ok:
            cs = [fact_str(c).replace(" ", "") for c in (conditions_to(body, comp[0]) or []) if c[0] != "loop"]
            ctx.check(R, "Block/new-block-iff-pending-predecessors", cs == ["!pred_set.is_empty()"], "complete_basic_block under %s" % cs, site(LF, comp[0]))
            ctx.check(R, "Block/new-block-follows-pending-predecessors", render(strip(comp[0]["args"][2])) == "pred_set" and render(strip(comp[0]["args"][3])) == "loop_depth", render(comp[0])[:100], site(LF, comp[0]))
            ex = unconditional(body, vis[0])
            early = [x["k"] for x in walk(body) if x["k"] in ("Break", "Continue", "Return")]
            ctx.check(R, "Block/every-statement-visited", not ex and not early, "%s; early exits in the arm: %s (a statement after an exit is not lifted: e.g. the code after a loop whose body returns)" % (ex, early), site(LF, vis[0]))
            oko, what = in_source_order(body, vis[0], arm["pat"], "stmts")
            ctx.check(R, "Block/statements-in-source-order", oko, "the statements are lifted in the order of: %s" % what, site(LF, vis[0]))
            asg = [n for n in walk(body) if n["k"] == "Assign" and render(n["l"]) == "pred_set"]
            ctx.check(R, "Block/pending-set-is-the-last-statement's", len(asg) == 1 and any(x is vis[0] for x in walk(asg[0]["r"])), "pred_set must be replaced by the result of visiting each statement", site(LF, arm))
            ctx.check(R, "Block/result", result_exprs(body) == ["Ok(pred_set)"], str(result_exprs(body)), site(LF, arm))
            rule_no_removal(ctx, R, "Block", body)
    # ---------------- InitializationBlock: its declarations and initialisers stay interleaved as written
    arm = arm_of(fn, "InitializationBlock")
    if arm is None:
        ctx.missing(R, "InitializationBlock arm")
    else:
        vis = list(calls(arm["body"], "visit_statement"))
        if len(vis) != 1:
            ctx.missing(R, "InitializationBlock/one-visit", "visit_statement x%d" % len(vis))
        else:
            oko, what = in_source_order(arm["body"], vis[0], arm["pat"], "initializations")
            ex = unconditional(arm["body"], vis[0])
            ctx.check(R, "InitializationBlock/statements-in-source-order", oko and not ex, "the initialisation statements are lifted in the order of: %s%s (`var a = e, b[a]` declares b after a is assigned)" % (what, (" under %s" % ex) if ex else ""), site(LF, vis[0]))
    # every statement kind that is not control flow or a block is appended: no arm (guarded or not) drops a statement
    ms_all = [m for m in walk(fn["body"]) if m["k"] == "Match" and render(strip(m["scrut"])) == "stmt"]
    if ms_all:
        control = {"While", "IfThenElse", "Block", "InitializationBlock"}
        for a in ms_all[0]["arms"]:
            kinds_ = {last(p) for p in pat_paths(a["pat"])}
            if kinds_ & control and not (kinds_ - control) and a.get("guard") is None:
                continue
            app = list(method_calls(a["body"], "append_statement"))
            lifted = [x for x in app if "stmt.try_lift(" in render(x).replace(" ", "") and not unconditional(a["body"], x)]
            keyk = "|".join(sorted(kinds_)) or "?"
            ctx.check(R, "%s/statement-kept" % keyk, bool(lifted), "arm `%s%s` does not append the lifted statement to the current block: the statement is executed by the source but met on no walk of the graph" % (render(a["pat"])[:50], (" if " + render(a["guard"])[:50]) if a.get("guard") is not None else ""), site(LF, a))
    # other statements: appended to the current block, no predecessors
    for a in [x for x in (arm_of(fn, "Declaration"), arm_of(fn, "_")) if x is not None]:
        nm = "Declaration" if "Declaration" in render(a["pat"]) else "other"
        app = list(method_calls(a["body"], "append_statement"))
        ok = len(app) == 1 and not unconditional(a["body"], app[0]) and "stmt.try_lift(" in render(app[0]).replace(" ", "")
        ctx.check(R, nm + "/appended-to-current-block", ok, render(a["body"])[:120], site(LF, a))
        ctx.check(R, nm + "/no-pending-predecessors", result_exprs(a["body"]) == ["Ok(HashSet::new())"], str(result_exprs(a["body"])), site(LF, a))


def resolve_pred(call, body):
    le = let_env(body, call)
    e = strip(call["args"][2])
    for _ in range(3):
        if e["k"] == "Path" and e["path"] in le:
            e = strip(le[e["path"]])
    return render(e).replace(" ", "")


def result_exprs(body):
    """rendered values the arm can evaluate to (tail expressions of its leaf blocks)"""
    out = []

    def rec(e):
        e0 = e
        if e["k"] == "Block":
            if not e["stmts"]:
                return
            s = e["stmts"][-1]
            if s["k"] == "ExprStmt" and not s["semi"]:
                rec(s["e"])
            return
        if e["k"] == "If":
            rec(e["then"])
            if e["else"]:
                rec(e["else"])
            return
        if e["k"] == "Match":
            for a in e["arms"]:
                rec(a["body"])
            return
        out.append(render(e0).replace(" ", "").replace(",", ", ").replace(", ", ","))

    rec(body)
    # values returned early (`return Ok(x);` in a let-else / guard) are results of the arm as well
    for n in walk(body):
        if n["k"] == "Return" and n.get("e") is not None:
            t_ = render(n["e"]).replace(" ", "")
            if t_ not in out:
                out.append(t_)
    return [x.replace(",", ", ") if False else x for x in out]


def rule_ends(ctx, R, name, body, setname):
    ins = [m for m in method_calls(body, "insert") if render(strip(m["recv"])) == setname and render(strip(m["args"][0])).replace(" ", "") == "basic_blocks.last().index()"]
    if not ins:
        # the same two lines extracted into a private helper: helper(&mut SET, basic_blocks)
        for c in walk(body):
            if c["k"] == "Call" and c["func"]["k"] == "Path" and "::" not in c["func"]["path"] and any(render(strip(a)) == setname for a in c["args"]):
                h = find_fn(LF, c["func"]["path"])
                if h is None:
                    continue
                import sgrep
                hp = sgrep.params(h)
                argn = [render(strip(a)) for a in c["args"]]
                if len(hp) != len(argn) or setname not in argn or "basic_blocks" not in argn:
                    continue
                ps, pb = hp[argn.index(setname)], hp[argn.index("basic_blocks")]
                hins = [m for m in method_calls(h["body"], "insert") if render(strip(m["recv"])) == ps and render(strip(m["args"][0])).replace(" ", "") == "%s.last().index()" % pb]
                if len(hins) == 1:
                    cs = [fact_str(x).replace(" ", "") for x in (conditions_to(h["body"], hins[0]) or [])]
                    outer = [fact_str(x).replace(" ", "") for x in (conditions_to(body, c) or []) if "else_case" not in fact_str(x)]
                    ctx.check(R, name + "/last-block-when-no-pending-ends", cs == [ps + ".is_empty()"] and not outer, "through helper %s: guard %s, call under %s" % (h["name"], cs, outer), site(LF, c))
                    return
    if len(ins) != 1:
        ctx.bad(R, name + "/last-block-when-no-pending-ends", "expected exactly one `%s.insert(basic_blocks.last().index())`, found %d" % (setname, len(ins)), None)
        return
    cs = [fact_str(c).replace(" ", "") for c in (conditions_to(body, ins[0]) or []) if "else_case" not in fact_str(c)]
    ctx.check(R, name + "/last-block-when-no-pending-ends", cs == [setname + ".is_empty()"], "the branch's last block joins the fall-through set exactly when the branch left no pending ends; guard: %s" % cs, site(LF, ins[0]))


def rule_no_removal(ctx, R, name, body):
    bad = [render(m)[:60] for m in walk(body) if m["k"] == "MethodCall" and m["method"] in ("clear", "remove", "retain", "drain", "take", "difference", "intersection") and "pred_set" in render(m["recv"])]
    ctx.check(R, name + "/pending-ends-never-dropped", not bad, "fall-through predecessors are removed: %s" % bad)


def rule_complete(ctx):
    R = "C12.4"
    ctx.rule(R, "complete_basic_block creates exactly one block whose index is its position, links every predecessor, and patches a predecessor's false target exactly when the new block is not its true target and no false target exists yet")
    fn = canon_complete(ctx, R)
    if fn is None:
        return
    le = let_env(fn["body"])
    j = le.get("j")
    ctx.check(R, "complete_basic_block/new-index-is-length", j is not None and render(strip(j)).replace(" ", "") == "basic_blocks.len()", render(j) if j else "?", site(LF, fn))
    push = list(method_calls(fn["body"], "push"))
    import sgrep as _sg

    ok = len(push) == 1 and _sg.match(_sg.pattern("BasicBlock::new(meta, j, loop_depth)"), push[0]["args"][0], {}, _sg.lets(fn["body"])) and not unconditional(fn["body"], push[0])
    ctx.check(R, "complete_basic_block/one-block-with-that-index", ok, render(push[0])[:100] if push else "no push", site(LF, fn))
    # nobody else rewrites a statement that is already in a block (in particular a branch's targets)
    for q_, f_ in fns_in_file(LF):
        if not f_.get("body") or f_["name"] == "complete_basic_block" or "tests" in q_:
            continue
        inl = [h for h in fns_in_file(LF) if h[1]["name"] == "complete_basic_block"]
        touch = [m for m in walk(f_["body"]) if m["k"] == "MethodCall" and m["method"] == "statements_mut"]
        touch += [p_ for p_ in walk(f_["body"]) if p_["k"] == "PStruct" and last(p_["path"]) == "IfThenElse" and any(fl["name"] in ("false_index", "true_index") for fl in p_["fields"])]
        # (the default view inlines private helpers: only a touch that is not the inlined complete_basic_block counts)
        own = [t for t in touch if not any(t is x for h in inl for x in walk(h[1]["body"]))]
        fp = {render(x)[:60] for h in inl for x in walk(h[1]["body"]) if x["k"] in ("MethodCall", "PStruct")}
        own = [t for t in own if render(t)[:60] not in fp]
        if touch or f_["name"] == "visit_statement":
            ctx.check(R, "%s/placed-statements-are-not-rewritten" % f_["name"], not own, "branch targets are written when the branch is created and patched by complete_basic_block only; here: %s" % [render(t)[:70] for t in own][:3], site(LF, own[0]) if own else site(LF, f_))
    asg = [n for n in walk(fn["body"]) if n["k"] == "Assign" and "false_index" in render(n["l"])]
    if len(asg) != 1:
        return ctx.bad(R, "complete_basic_block/false-target-patch", "expected one assignment to false_index, found %d" % len(asg))
    cs = [fact_str(c).replace(" ", "") for c in (conditions_to(fn["body"], asg[0]) or []) if c[0] != "loop"]
    want1 = "(letSome(IfThenElse{cond,true_index,false_index,..})=basic_blocks[i].statements_mut().last_mut())"
    ok = len(cs) == 3 and cs[0].replace("cond,", "").replace("cond", "") == want1.replace("cond,", "") and set(cs[1:]) in ({"!(j==*true_index)", "!false_index.is_some()"}, {"!(*true_index==j)", "!false_index.is_some()"})
    ctx.check(R, "complete_basic_block/false-target-patch/guard", ok, "guards: %s" % cs, site(LF, asg[0]))
    ctx.check(R, "complete_basic_block/false-target-patch/value", render(asg[0]["r"]).replace(" ", "") == "Some(j)", render(asg[0]["r"]), site(LF, asg[0]))


def rule_entry(ctx):
    R = "C12.3"
    ctx.rule(R, "the entry block is block 0 at depth 0 and the block vector is built only by the lifting")
    fn = find_fn(LF, "build_basic_blocks")
    if fn is None:
        return ctx.missing(R, "build_basic_blocks")
    t = render(fn["body"]).replace(" ", "")
    import sgrep
    pvb = sgrep.params(fn)
    envb = sgrep.lets(fn["body"])
    bbn = []
    for l_ in walk(fn["body"]):
        if l_["k"] != "Local" or l_.get("init") is None:
            continue
        p_ = l_["pat"]
        while p_["k"] in ("PType", "PRef"):
            p_ = p_["pat"]
        if p_["k"] != "PIdent":
            continue
        env_wo = {k_: v_ for k_, v_ in envb.items() if k_ != p_["name"]}  # a later shadowing `let blocks = blocks.into()` must not hide it
        if sgrep.match(sgrep.pattern("BasicBlockVec::new(BasicBlock::new(__m, Index::default(), 0))"), l_["init"], {}, env_wo) or sgrep.match(sgrep.pattern("BasicBlockVec::new(BasicBlock::new(__m, 0, 0))"), l_["init"], {}, env_wo):
            bbn.append(p_["name"])
    ctx.check(R, "build_basic_blocks/entry-block", len(bbn) == 1, "the block vector starts with one block of index 0 at depth 0: %s" % bbn, site(LF, fn))
    okv = len(pvb) == 3 and len(bbn) == 1 and sgrep.has(fn["body"], "visit_statement(__b, 0, __e, __r, __v)?", None, {"__b": pvb[0], "__e": pvb[1], "__r": pvb[2], "__v": bbn[0]})
    ctx.check(R, "build_basic_blocks/lifts-the-body-at-depth-0", okv, "", site(LF, fn))
    bb = find_fn(BB, "new", "BasicBlock")
    if bb is not None:
        from astlib import struct_literal_fields

        lits = struct_literal_fields(bb, "BasicBlock")
        pvn = sgrep.params(bb)
        okn = len(lits) == 1 and len(pvn) == 3 and lits[0].get("predecessors") in ("IndexSet::new()", "IndexSet::default()", "Default::default()") and lits[0].get("successors") in ("IndexSet::new()", "IndexSet::default()", "Default::default()") and lits[0].get("index") == pvn[1] and lits[0].get("loop_depth") == pvn[2] and lits[0].get("meta") == pvn[0]
        ctx.check(R, "BasicBlock::new/no-edges", okn, str(lits)[:300], site(BB, bb))


CFGF = "program_structure/src/control_flow_graph/cfg.rs"


def rule_edges_stay(ctx, R="C12.6"):
    ctx.rule(R, "edges are only ever added: nothing in the control-flow-graph modules removes a member of a successor or predecessor set (a branch keeps both targets as successors even when its condition is a known constant)")
    import facts as _facts

    n = 0
    for f in sorted(_facts.ast()):
        if not f.startswith("program_structure/src/control_flow_graph/") and not f.startswith("program_structure/src/static_single_assignment/"):
            continue
        for q, fn in fns_in_file(f):
            if not fn.get("body") or "tests" in q:
                continue
            n += 1
            hits = [m for m in walk(fn["body"]) if m["k"] == "MethodCall" and m["method"] in ("remove", "retain", "clear", "drain", "take", "swap_remove", "pop", "split_off", "truncate") and re.search(r"self\.(successors|predecessors)\b|\.(successors|predecessors)_mut\(\)", render(m["recv"]).replace(" ", ""))]
            hits += [m for m in walk(fn["body"]) if m["k"] == "MethodCall" and m["method"] in ("remove_successor", "remove_predecessor")]
            if hits:
                ctx.bad(R, "%s::%s/removes-an-edge" % (f.rsplit("/", 1)[-1][:-3], fn["name"]), "`%s`" % render(hits[0])[:70], site(f, hits[0]))
    ctx.floor(R, "functions scanned for edge removal", n, 60)
    ctx.ok(R, "scan-complete", "%d functions scanned" % n)


def rule_handover(ctx):
    R = "C12.5"
    ctx.rule(R, "what the lifting built is what the graph holds: BasicBlock's mutators append / prepend / insert what they are given unconditionally, and the block vector goes from build_basic_blocks through Cfg::new into the graph without being changed (dropping a statement or a block afterwards leaves edges and branch targets pointing at things that are not there)")
    import sgrep
    from astlib import struct_literal_fields
    from pathcond import _mutated_names

    for nm, pats in (("append_statement", ["self.stmts.push(__s)"]), ("prepend_statement", ["self.stmts.insert(0, __s)"]), ("add_predecessor", ["self.predecessors.insert(__s)"]), ("add_successor", ["self.successors.insert(__s)"])):
        f = find_fn(BB, nm, "BasicBlock")
        if f is None:
            ctx.missing(R, "BasicBlock::" + nm)
            continue
        pv = sgrep.params(f)
        hits = []
        for n in walk(f["body"]):
            if n["k"] == "MethodCall" and len(pv) == 1 and any(sgrep.match(sgrep.pattern(pt), n, {"__s": pv[0]}, sgrep.lets(f["body"])) for pt in pats):
                hits.append(n)
        conds = [fact_str(c) for h in hits for c in (conditions_to(f["body"], h) or [])]
        exits_ = [x for x in walk(f["body"]) if x["k"] in ("Return", "Try")]
        ctx.check(R, "BasicBlock::%s/unconditional" % nm, len(hits) == 1 and not conds and not exits_, "expected exactly `%s` on every path; found %d under %s, early exits: %d" % (pats[0], len(hits), conds, len(exits_)), site(BB, f))
    cn = find_fn(CFGF, "new", "Cfg")
    if cn is None:
        ctx.missing(R, "Cfg::new")
    else:
        prm = [i for i in cn["sig"]["inputs"] if i["pat"]["k"] == "PIdent" and "BasicBlock" in i["ty"] and "Vec" in i["ty"].replace("BasicBlockVec", "Vec")]
        lits = struct_literal_fields(cn, "Cfg")
        okf = len(prm) == 1 and len(lits) == 1 and lits[0].get("basic_blocks") in (prm[0]["pat"]["name"], prm[0]["pat"]["name"] + ".into()")
        muts = set()
        for st in cn["body"]["stmts"]:
            muts |= _mutated_names(st)
        okm = len(prm) == 1 and prm[0]["pat"]["name"] not in muts
        ctx.check(R, "Cfg::new/stores-the-vector-it-is-given", okf and okm, "basic_blocks field: %s; parameter changed in the body: %s" % (lits[0].get("basic_blocks") if lits else "?", sorted(muts)), site(CFGF, cn))
    # the lifting hands the vector over untouched
    for q, f in fns_in_file(LF):
        if not f.get("body") or not list(calls(f["body"], "build_basic_blocks")):
            continue
        bnames = []
        for l_ in walk(f["body"]):
            if l_["k"] == "Local" and l_.get("init") is not None and list(calls(l_["init"], "build_basic_blocks")) and l_["pat"]["k"] == "PIdent":
                bnames.append((l_["pat"]["name"], l_["pat"].get("mut")))
        news = list(calls(f["body"], "Cfg::new"))
        if len(bnames) != 1 or len(news) != 1:
            ctx.missing(R, "%s/one-vector-one-graph" % f["name"], "vectors %s, Cfg::new x%d" % (bnames, len(news)))
            continue
        nm, mut = bnames[0]
        passed = any(render(strip(a)) == nm for a in news[0]["args"])
        muts = set()
        for st in f["body"]["stmts"]:
            muts |= _mutated_names(st)
        ctx.check(R, "%s/vector-handed-to-the-graph-unchanged" % f["name"], passed and not mut and nm not in muts, "passed to Cfg::new: %s, declared mut: %s, changed: %s" % (passed, bool(mut), nm in muts), site(LF, news[0]))


def run(ctx):
    rule_edges(ctx)
    rule_lifting(ctx)
    rule_entry(ctx)
    rule_complete(ctx)
    rule_handover(ctx)
    rule_edges_stay(ctx)
    import c14 as _c14

    ctx.include("C12.7", "the conversion to SSA does not take statements out of the blocks it was given (a block that keeps two successors must keep its branch; shared with C14.2)", _c14.rule_pipeline, only=["no-step-removes-statements", "into_ssa/"])
