"""Report-carrying values are not discarded (shared by C02 and C03), decided on rustc's MIR.

A value whose type contains a Report by value (a Report, a collection of them, or one of the lifting error enums that
convert into a Report) stands for `something about this input must be shown`.  For every MIR local of such a type in
hand-written, non-test code the rule looks at the *components* of the type that carry the report - through Result,
ControlFlow, Option and tuple structure - and demands that each component is touched by some statement (moved, copied,
borrowed, passed on).  A component that is never touched is bound to `_`, to `..`, or not matched at all: it can only
be dropped.  Reading the discriminant and dropping do not count as touching.

The rule is per component, not per binding name or source form: `match`, `if let`, `let else`, `?`, closures and
helper functions all end in the same MIR projections.  It does not follow a value after it has been moved into
another local or function (that local / function is judged on its own), and a borrow of the whole value counts for
all its components."""
import re

import mirlib

SENSITIVE = re.compile(r"report::Report\b|errors::(IRError|CFGError|SSAError)\b|\b(IRError|CFGError|SSAError)\b")
# reviewed discards, one named function each
DISCARD_OK = {
    "parser_logic::parse_string": "`parse a single definition for testing purposes` (Option-returning helper of parse_definition, used by unit tests and AnalysisRunner::with_src); not on the command-line path, which calls parse_file",
}
DISCARDING = re.compile(r"(?:std|core)::result::Result::<T, E>::(ok|unwrap_or|unwrap_or_default|unwrap_or_else|map_or|is_ok_and|unwrap_unchecked)$")


def _split_args(s):
    out, depth, cur = [], 0, ""
    for ch in s:
        if ch in "<([":
            depth += 1
        elif ch in ">)]":
            depth -= 1
        if ch == "," and depth == 0:
            out.append(cur.strip())
            cur = ""
        else:
            cur += ch
    if cur.strip():
        out.append(cur.strip())
    return out


_COMP = {}


def components(ty):
    if ty not in _COMP:
        _COMP[ty] = _components(ty)
    return _COMP[ty]


def _components(ty):
    """projection paths (lists) to the report-carrying parts of a type text; [] = the value itself; None = nothing"""
    ty = ty.strip()
    if not SENSITIVE.search(ty):
        return None
    if ty.startswith("&") or ty.startswith("*"):
        return None  # borrowed: somebody else owns it
    m = re.match(r"(?:std|core)::result::Result<(.*)>$", ty)
    if m:
        a = _split_args(m.group(1))
        out = []
        for tag, t in zip(("as Ok", "as Err"), a):
            c = components(t)
            if c is not None:
                out += [[tag, ".0"] + p for p in c]
        return out or None
    m = re.match(r"(?:std|core)::ops::ControlFlow<(.*)>$", ty)
    if m:
        a = _split_args(m.group(1))
        if len(a) == 1:
            a.append("()")
        out = []
        for tag, t in zip(("as Break", "as Continue"), a):
            c = components(t)
            if c is not None:
                out += [[tag, ".0"] + p for p in c]
        return out or None
    m = re.match(r"(?:std|core)::option::Option<(.*)>$", ty)
    if m:
        c = components(m.group(1))
        return [["as Some", ".0"] + p for p in c] if c is not None else None
    if ty.startswith("(") and ty.endswith(")"):
        out = []
        for i, t in enumerate(_split_args(ty[1:-1])):
            c = components(t)
            if c is not None:
                out += [[".%d" % i] + p for p in c]
        return out or None
    return [[]]


def _touches(fn):
    """local -> list of projections with which it is read / moved / borrowed (not discriminant reads, not drops)"""
    acc = {}

    def op(o):
        if isinstance(o, dict) and "l" in o:
            acc.setdefault(o["l"], []).append(o.get("p") or [])

    for b in fn["blocks"]:
        if b.get("cleanup"):
            continue
        for s in b["stmts"]:
            rv = s["rv"]
            if rv["k"] == "discr":
                continue
            for o in rv.get("ops", []):
                op(o)
            if "place" in rv:
                op(rv["place"])
            d = s["dst"]
            # a write through a projection of the local (field assignment) is not a read
        t = b["term"]
        if t["k"] == "call":
            for o in t.get("args", []):
                op(o)
            if t.get("fop"):
                op(t["fop"])
        elif t["k"] == "switch":
            pass
    return acc


def _is_test(fn):
    p = fn["pretty"]
    return "::tests::" in p or p.startswith("tests::") or "::test::" in p or "/tests/" in fn["file"] or fn["file"].startswith("program_structure_tests")


def _covers(access, comp):
    n = min(len(access), len(comp))
    return access[:n] == comp[:n]


def scan():
    """yield (fn, local index, type, component path, touched?) and (fn, call, error type) for discarding calls"""
    idx = mirlib.index()
    vals, discards = [], []
    for fid, fn in sorted(idx.items()):
        if fn.get("gen") or fn.get("exp") or _is_test(fn) or fn["pretty"] in DISCARD_OK:
            continue
        acc = None
        assigned = None
        for li, ty in enumerate(fn["locals"]):
            comps = components(ty) if isinstance(ty, str) else None
            if not comps:
                continue
            if acc is None:
                acc = _touches(fn)
                assigned = set()
                for b in fn["blocks"]:
                    if b.get("cleanup"):
                        continue
                    for s in b["stmts"]:
                        if not s["dst"].get("p"):
                            assigned.add(s["dst"]["l"])
                    if b["term"]["k"] == "call" and b["term"].get("dst") and not b["term"]["dst"].get("p"):
                        assigned.add(b["term"]["dst"]["l"])
            if li == 0:
                continue  # the return place: handed to the caller
            if li > fn["argc"] and li not in assigned:
                continue  # never given a value on a normal path
            for c in comps:
                hit = any(_covers(a, c) for a in acc.get(li, []))
                vals.append((fn, li, ty, c, hit))
        for _i, t in mirlib.calls_of(fn):
            p = t.get("pretty") or ""
            m = DISCARDING.search(p)
            if m and not t.get("exp"):
                g = t.get("gargs") or []
                if len(g) > 1 and SENSITIVE.search(g[1]):
                    discards.append((fn, t, m.group(1), g[1]))
    return vals, discards


SINGLE = re.compile(r"^(?:std::boxed::Box<)?(?:[a-z_0-9]+::)*report::Report>?$|^(?:std::boxed::Box<)?(?:[a-z_0-9]+::)*(?:IRError|CFGError|SSAError)>?$")


def _succ(t):
    k = t["k"]
    if k == "goto":
        return [t["target"]]
    if k == "switch":
        return [x[1] for x in t["targets"]] + ([t["otherwise"]] if t.get("otherwise") is not None else [])
    if k in ("call", "drop", "assert"):
        return [t["target"]] if t.get("target") is not None else []
    return []


def _events(fn, L):
    """block index -> ordered list of 'def' / 'use' / 'drop' events of local L.  use = moved out (whole, through a
    field, or - for a Box - through the raw pointer rustc derives from it to move the content out) or handed out
    mutably; drop = the elaborated `Drop::drop(&mut L)` call."""
    ptrs = set()
    for b in fn["blocks"]:
        for s in b["stmts"]:
            rv = s["rv"]
            if rv["k"] == "cast" and any(isinstance(o, dict) and o.get("l") == L and o.get("p") for o in rv.get("ops", [])) and not s["dst"].get("p"):
                ptrs.add(s["dst"]["l"])
    ev = {}
    for bi, b in enumerate(fn["blocks"]):
        if b.get("cleanup"):
            continue
        e = []
        t = b["term"]
        dropped_refs = set()
        if t["k"] == "call" and re.search(r" as (?:std|core)::ops::Drop>::drop$", t.get("pretty") or ""):
            dropped_refs = {o["l"] for o in t.get("args", []) if isinstance(o, dict) and "l" in o}

        def ops(os_):
            for o in os_:
                if not isinstance(o, dict) or not o.get("mv"):
                    continue
                if o.get("l") == L or (o.get("l") in ptrs and (o.get("p") or [""])[0] == "*"):
                    e.append("use")

        for s in b["stmts"]:
            rv = s["rv"]
            ops(rv.get("ops", []))
            if rv["k"] == "ref" and rv.get("mut") and rv["place"]["l"] == L:
                e.append("drop" if s["dst"]["l"] in dropped_refs else "use")  # handed out mutably (mem::take / swap)
            if s["dst"]["l"] == L and not s["dst"].get("p"):
                e.append("def")
        if t["k"] == "call":
            ops(t.get("args", []))
            if t.get("dst") and t["dst"]["l"] == L and not t["dst"].get("p"):
                e.append("def")
        if e:
            ev[bi] = e
    return ev


def single_reports():
    """yield (fn, local, type, escape) for every local holding ONE report by value (Report, Box<Report>, a lifting
    error): escape = None when every path from each of its definitions moves it on (into a collection, a conversion,
    the return value) before the function returns, the value is dropped, or it is overwritten; else (kind, block)."""
    idx = mirlib.index()
    for fid, fn in sorted(idx.items()):
        if fn.get("gen") or fn.get("exp") or _is_test(fn):
            continue
        for L, ty in enumerate(fn["locals"]):
            if L == 0 or L <= fn["argc"] or not isinstance(ty, str) or not SINGLE.search(ty):
                continue
            ev = _events(fn, L)
            starts = []
            for bi, e in ev.items():
                for i, x in enumerate(e):
                    if x == "def" and "use" not in e[i + 1:]:
                        if "drop" in e[i + 1:]:
                            starts.append(("dropped", bi))
                        else:
                            starts.append(bi)
            if not any("def" in e for e in ev.values()):
                continue
            bad = None
            for bi in starts:
                if isinstance(bi, tuple):
                    bad = bi
                    break
                seen, st = set(), list(_succ(fn["blocks"][bi]["term"]))
                while st and not bad:
                    b = st.pop()
                    if b in seen:
                        continue
                    seen.add(b)
                    blk = fn["blocks"][b]
                    if blk.get("cleanup"):
                        continue
                    e = ev.get(b, [])
                    if e and e[0] == "use":
                        continue
                    if e and e[0] == "def":
                        bad = ("overwritten", b)
                    elif e and e[0] == "drop":
                        bad = ("dropped", b)
                    elif blk["term"]["k"] == "return":
                        bad = ("function returns", b)
                    elif blk["term"]["k"] == "drop" and blk["term"]["place"]["l"] == L and not blk["term"]["place"].get("p"):
                        bad = ("dropped", b)
                    else:
                        st.extend(_succ(blk["term"]))
                if bad:
                    break
            yield fn, L, ty, bad


def _name(fn, li):
    for k, v in (fn.get("names") or {}).items():
        if v == li or str(v) == str(li):
            return k
    nm = fn.get("names") or {}
    if str(li) in nm:
        return nm[str(li)]
    return "_%d" % li


def short_ty(ty):
    return re.sub(r"\b(?:[a-z_0-9]+::)+", "", ty)


def rule_consumed(ctx, R):
    ctx.rule(R, "no report-carrying value is discarded: in every hand-written function, each component of a Result / ControlFlow / Option / tuple value that holds a Report, a report collection or a lifting error is moved, borrowed or passed on by some statement (a component bound to `_` or never matched can only be dropped), and no such Result goes through ok() / unwrap_or*()")
    import os

    if os.environ.get("VERIF_SKIP_MIR_RULES") == "1":
        return ctx.note("%s skipped (VERIF_SKIP_MIR_RULES=1: syntax-only sweep of the tools)" % R)
    vals, discards = scan()
    n = 0
    seen = {}
    for fn, li, ty, c, hit in vals:
        key = "%s/%s%s" % (fn["pretty"], short_ty(ty), ("." + "".join(x.replace("as ", "::") if x.startswith("as ") else x for x in c)) if c else "")
        # several temporaries of one type in one function share a key: all must be touched
        prev = seen.get(key)
        seen[key] = (prev[0] and hit, prev[1] if prev and not prev[0] else (fn, li)) if prev else (hit, (fn, li))
    for key, (hit, (fn, li)) in sorted(seen.items()):
        n += 1
        ctx.check(R, key, hit, "touched" if hit else "this part of the value is never read, moved or borrowed in %s: the report(s) it carries are dropped silently" % fn["pretty"], (fn["file"], fn["line"]))
    for fn, t, meth, et in discards:
        if fn["pretty"] in DISCARD_OK:
            ctx.ok(R, "%s/Result::%s<%s>" % (fn["pretty"], meth, short_ty(et)), "reviewed: " + DISCARD_OK[fn["pretty"]], (fn["file"], t["line"]))
            continue
        ctx.bad(R, "%s/Result::%s<%s>" % (fn["pretty"], meth, short_ty(et)), "the error of this result is a report and %s() throws it away" % meth, (fn["file"], t["line"]))
    ctx.floor(R, "report-carrying components examined", n, 60)
    # a single report held by value is moved on along every path
    agg = {}
    for fn, L, ty, bad in single_reports():
        key = "%s/%s/moved-on-every-path" % (fn["pretty"], short_ty(ty))
        if key not in agg or bad:
            agg[key] = (fn, L, bad)
    for key, (fn, L, bad) in sorted(agg.items()):
        line = fn["line"]
        if bad:
            blk = fn["blocks"][bad[1]]
            line = blk["term"].get("line") or (blk["stmts"][0]["line"] if blk["stmts"] else line)
        ctx.check(R, key, not bad, "moved on (pushed, converted, returned) on every path" if not bad else "on some path through %s this report is not moved anywhere (%s near line %s): it is dropped without being shown" % (fn["pretty"], bad[0], line), (fn["file"], line))
    ctx.floor(R, "single-report values examined", len(agg), 60)
