"""Report-carrying values are not discarded (shared by C02 and C03), decided on rustc's MIR.

A value whose type contains a Report by value (a Report, a collection of them, or one of the lifting error enums that
convert into a Report) stands for `something about this input must be shown`.  For every MIR local of such a type in
hand-written, non-test code the rule looks at the *components* of the type that carry the report - through Result,
ControlFlow, Option and tuple structure - and demands that each component is touched by some statement (moved, copied,
borrowed, passed on).  A component that is never touched is bound to `_`, to `..`, or not matched at all: it can only
be dropped.  Reading the discriminant and dropping do not count as touching.

The rule is per component, not per binding name or source form: `match`, `if let`, `let else`, `?`, closures and
helper functions all end in the same MIR projections.  It does not follow a value after it has been moved into
another local or function (that local / function is judged on its own), and a borrow of the whole value counts for
all its components."""
import re

import mirlib

SENSITIVE = re.compile(r"report::Report\b|errors::(IRError|CFGError|SSAError)\b|\b(IRError|CFGError|SSAError)\b")
# reviewed discards, one named function each
DISCARD_OK = {
    "parser_logic::parse_string": "`parse a single definition for testing purposes` (Option-returning helper of parse_definition, used by unit tests and AnalysisRunner::with_src); not on the command-line path, which calls parse_file",
}
DISCARDING = re.compile(r"(?:std|core)::result::Result::<T, E>::(ok|unwrap_or|unwrap_or_default|unwrap_or_else|map_or|is_ok_and|unwrap_unchecked)$")


def _split_args(s):
    out, depth, cur = [], 0, ""
    for ch in s:
        if ch in "<([":
            depth += 1
        elif ch in ">)]":
            depth -= 1
        if ch == "," and depth == 0:
            out.append(cur.strip())
            cur = ""
        else:
            cur += ch
    if cur.strip():
        out.append(cur.strip())
    return out


_COMP = {}


def components(ty):
    if ty not in _COMP:
        _COMP[ty] = _components(ty)
    return _COMP[ty]


def _components(ty):
    """projection paths (lists) to the report-carrying parts of a type text; [] = the value itself; None = nothing"""
    ty = ty.strip()
    if not SENSITIVE.search(ty):
        return None
    if ty.startswith("&") or ty.startswith("*"):
        return None  # borrowed: somebody else owns it
    m = re.match(r"(?:std|core)::result::Result<(.*)>$", ty)
    if m:
        a = _split_args(m.group(1))
        out = []
        for tag, t in zip(("as Ok", "as Err"), a):
            c = components(t)
            if c is not None:
                out += [[tag, ".0"] + p for p in c]
        return out or None
    m = re.match(r"(?:std|core)::ops::ControlFlow<(.*)>$", ty)
    if m:
        a = _split_args(m.group(1))
        if len(a) == 1:
            a.append("()")
        out = []
        for tag, t in zip(("as Break", "as Continue"), a):
            c = components(t)
            if c is not None:
                out += [[tag, ".0"] + p for p in c]
        return out or None
    m = re.match(r"(?:std|core)::option::Option<(.*)>$", ty)
    if m:
        c = components(m.group(1))
        return [["as Some", ".0"] + p for p in c] if c is not None else None
    if ty.startswith("(") and ty.endswith(")"):
        out = []
        for i, t in enumerate(_split_args(ty[1:-1])):
            c = components(t)
            if c is not None:
                out += [[".%d" % i] + p for p in c]
        return out or None
    return [[]]


def _touches(fn):
    """local -> list of projections with which it is read / moved / borrowed (not discriminant reads, not drops)"""
    acc = {}

    def op(o):
        if isinstance(o, dict) and "l" in o:
            acc.setdefault(o["l"], []).append(o.get("p") or [])

    for b in fn["blocks"]:
        if b.get("cleanup"):
            continue
        for s in b["stmts"]:
            rv = s["rv"]
            if rv["k"] == "discr":
                continue
            for o in rv.get("ops", []):
                op(o)
            if "place" in rv:
                op(rv["place"])
            d = s["dst"]
            # a write through a projection of the local (field assignment) is not a read
        t = b["term"]
        if t["k"] == "call":
            for o in t.get("args", []):
                op(o)
            if t.get("fop"):
                op(t["fop"])
        elif t["k"] == "switch":
            pass
    return acc


def _is_test(fn):
    p = fn["pretty"]
    return "::tests::" in p or p.startswith("tests::") or "::test::" in p or "/tests/" in fn["file"] or fn["file"].startswith("program_structure_tests")


def _covers(access, comp):
    n = min(len(access), len(comp))
    return access[:n] == comp[:n]


def scan():
    """yield (fn, local index, type, component path, touched?) and (fn, call, error type) for discarding calls"""
    idx = mirlib.index()
    vals, discards = [], []
    for fid, fn in sorted(idx.items()):
        if fn.get("gen") or fn.get("exp") or _is_test(fn) or fn["pretty"] in DISCARD_OK:
            continue
        acc = None
        assigned = None
        for li, ty in enumerate(fn["locals"]):
            comps = components(ty) if isinstance(ty, str) else None
            if not comps:
                continue
            if acc is None:
                acc = _touches(fn)
                assigned = set()
                for b in fn["blocks"]:
                    if b.get("cleanup"):
                        continue
                    for s in b["stmts"]:
                        if not s["dst"].get("p"):
                            assigned.add(s["dst"]["l"])
                    if b["term"]["k"] == "call" and b["term"].get("dst") and not b["term"]["dst"].get("p"):
                        assigned.add(b["term"]["dst"]["l"])
            if li == 0:
                continue  # the return place: handed to the caller
            if li > fn["argc"] and li not in assigned:
                continue  # never given a value on a normal path
            for c in comps:
                hit = any(_covers(a, c) for a in acc.get(li, []))
                vals.append((fn, li, ty, c, hit))
        for _i, t in mirlib.calls_of(fn):
            p = t.get("pretty") or ""
            m = DISCARDING.search(p)
            if m and not t.get("exp"):
                g = t.get("gargs") or []
                if len(g) > 1 and SENSITIVE.search(g[1]):
                    discards.append((fn, t, m.group(1), g[1]))
    return vals, discards


SINGLE = re.compile(r"^(?:std::boxed::Box<)?(?:[a-z_0-9]+::)*report::Report>?$|^(?:std::boxed::Box<)?(?:[a-z_0-9]+::)*(?:IRError|CFGError|SSAError)>?$")


def _succ(t):
    k = t["k"]
    if k == "goto":
        return [t["target"]]
    if k == "switch":
        return [x[1] for x in t["targets"]] + ([t["otherwise"]] if t.get("otherwise") is not None else [])
    if k in ("call", "drop", "assert"):
        return [t["target"]] if t.get("target") is not None else []
    return []


def _events(fn, L):
    """block index -> ordered list of 'def' / 'use' / 'drop' events of local L.  use = moved out (whole, through a
    field, or - for a Box - through the raw pointer rustc derives from it to move the content out) or handed out
    mutably; drop = the elaborated `Drop::drop(&mut L)` call."""
    ptrs = set()
    for b in fn["blocks"]:
        for s in b["stmts"]:
            rv = s["rv"]
            if rv["k"] == "cast" and any(isinstance(o, dict) and o.get("l") == L and o.get("p") for o in rv.get("ops", [])) and not s["dst"].get("p"):
                ptrs.add(s["dst"]["l"])
    ev = {}
    for bi, b in enumerate(fn["blocks"]):
        if b.get("cleanup"):
            continue
        e = []
        t = b["term"]
        dropped_refs = set()
        if t["k"] == "call" and re.search(r" as (?:std|core)::ops::Drop>::drop$", t.get("pretty") or ""):
            dropped_refs = {o["l"] for o in t.get("args", []) if isinstance(o, dict) and "l" in o}

        def ops(os_):
            for o in os_:
                if not isinstance(o, dict) or not o.get("mv"):
                    continue
                if o.get("l") == L or (o.get("l") in ptrs and (o.get("p") or [""])[0] == "*"):
                    e.append("use")

        for s in b["stmts"]:
            rv = s["rv"]
            ops(rv.get("ops", []))
            if rv["k"] == "ref" and rv.get("mut") and rv["place"]["l"] == L:
                e.append("drop" if s["dst"]["l"] in dropped_refs else "use")  # handed out mutably (mem::take / swap)
            if s["dst"]["l"] == L and not s["dst"].get("p"):
                e.append("def")
        if t["k"] == "call":
            ops(t.get("args", []))
            if t.get("dst") and t["dst"]["l"] == L and not t["dst"].get("p"):
                e.append("def")
        if e:
            ev[bi] = e
    return ev


def single_reports():
    """yield (fn, local, type, escape) for every local holding ONE report by value (Report, Box<Report>, a lifting
    error): escape = None when every path from each of its definitions moves it on (into a collection, a conversion,
    the return value) before the function returns, the value is dropped, or it is overwritten; else (kind, block)."""
    idx = mirlib.index()
    for fid, fn in sorted(idx.items()):
        if fn.get("gen") or fn.get("exp") or _is_test(fn):
            continue
        for L, ty in enumerate(fn["locals"]):
            if L == 0 or L <= fn["argc"] or not isinstance(ty, str) or not SINGLE.search(ty):
                continue
            ev = _events(fn, L)
            starts = []
            for bi, e in ev.items():
                for i, x in enumerate(e):
                    if x == "def" and "use" not in e[i + 1:]:
                        if "drop" in e[i + 1:]:
                            starts.append(("dropped", bi))
                        else:
                            starts.append(bi)
            if not any("def" in e for e in ev.values()):
                continue
            bad = None
            for bi in starts:
                if isinstance(bi, tuple):
                    bad = bi
                    break
                seen, st = set(), list(_succ(fn["blocks"][bi]["term"]))
                while st and not bad:
                    b = st.pop()
                    if b in seen:
                        continue
                    seen.add(b)
                    blk = fn["blocks"][b]
                    if blk.get("cleanup"):
                        continue
                    e = ev.get(b, [])
                    if e and e[0] == "use":
                        continue
                    if e and e[0] == "def":
                        bad = ("overwritten", b)
                    elif e and e[0] == "drop":
                        bad = ("dropped", b)
                    elif blk["term"]["k"] == "return":
                        bad = ("function returns", b)
                    elif blk["term"]["k"] == "drop" and blk["term"]["place"]["l"] == L and not blk["term"]["place"].get("p"):
                        bad = ("dropped", b)
                    else:
                        st.extend(_succ(blk["term"]))
                if bad:
                    break
            yield fn, L, ty, bad


COLLECTION = re.compile(r"^std::vec::Vec<(?:[a-z_0-9]+::)*report::Report>$")


def received_collections():
    """yield (fn, local, type, escape) for every local holding a *collection* of reports that was taken out of another
    value (the payload of a call's result, e.g. the warnings returned next to a parsed file): such a collection may be
    non-empty, so every path from there must hand it on - move it, append it (`&mut`), or lend it to a consumer -
    before the function returns, drops it or overwrites it.  Collections created empty in the function are not
    tracked (leaving early with an empty collection loses nothing)."""
    idx = mirlib.index()
    for fid, fn in sorted(idx.items()):
        if fn.get("gen") or fn.get("exp") or _is_test(fn):
            continue
        for L, ty in enumerate(fn["locals"]):
            if L == 0 or L <= fn["argc"] or not isinstance(ty, str) or not COLLECTION.search(ty):
                continue
            received = False
            for b in fn["blocks"]:
                if b.get("cleanup"):
                    continue
                for s_ in b["stmts"]:
                    if s_["dst"]["l"] == L and not s_["dst"].get("p") and s_["rv"]["k"] == "use":
                        if any(isinstance(o, dict) and o.get("p") and o.get("mv") and o.get("l") != L for o in s_["rv"].get("ops", [])):
                            received = True
            if not received:
                continue
            ev = {}
            for bi, b in enumerate(fn["blocks"]):
                if b.get("cleanup"):
                    continue
                e = []
                t = b["term"]
                dropped = set()
                if t["k"] == "call" and re.search(r" as (?:std|core)::ops::Drop>::drop$", t.get("pretty") or ""):
                    dropped = {o["l"] for o in t.get("args", []) if isinstance(o, dict) and "l" in o}
                for s_ in b["stmts"]:
                    rv = s_["rv"]
                    for o in rv.get("ops", []):
                        if isinstance(o, dict) and o.get("l") == L and o.get("mv"):
                            e.append("use")
                    if rv["k"] == "ref" and rv["place"]["l"] == L:
                        e.append("drop" if s_["dst"]["l"] in dropped else "use")
                    if s_["dst"]["l"] == L and not s_["dst"].get("p"):
                        e.append("def")
                if t["k"] == "call":
                    for o in t.get("args", []):
                        if isinstance(o, dict) and o.get("l") == L and o.get("mv"):
                            e.append("use")
                if e:
                    ev[bi] = e
            bad = None
            for bi, e in ev.items():
                for i, x in enumerate(e):
                    if x != "def" or "use" in e[i + 1:]:
                        continue
                    seen, st = set(), list(_succ(fn["blocks"][bi]["term"]))
                    while st and not bad:
                        b = st.pop()
                        if b in seen:
                            continue
                        seen.add(b)
                        blk = fn["blocks"][b]
                        if blk.get("cleanup"):
                            continue
                        e2 = ev.get(b, [])
                        if e2 and e2[0] == "use":
                            continue
                        if e2 and e2[0] == "def":
                            bad = ("overwritten", b)
                        elif e2 and e2[0] == "drop":
                            bad = ("dropped", b)
                        elif blk["term"]["k"] == "return":
                            bad = ("function returns", b)
                        elif blk["term"]["k"] == "drop" and blk["term"]["place"]["l"] == L and not blk["term"]["place"].get("p"):
                            bad = ("dropped", b)
                        else:
                            st.extend(_succ(blk["term"]))
            yield fn, L, ty, bad


NEUTRAL_READS = re.compile(r"::(len|is_empty|capacity)$")
FILLERS = re.compile(r"(?:std|alloc)::vec::Vec::<T(?:, A)?>::(push|append|extend|extend_from_slice|insert|resize|extend_from_within|reserve)$|as std::iter::Extend<[^>]*>>::extend$")


REF_COLLECTION = re.compile(r"^&mut std::vec::Vec<(?:[a-z_0-9]+::)*report::Report>$")
_ROLE_CACHE = {}


def _ref_aliases(fn, is_root):
    """locals of `fn` that hold a reference to the collection: is_root(place) says whether a borrowed place is it"""
    alias = {}
    changed = True
    while changed:
        changed = False
        for b in fn["blocks"]:
            for s_ in b["stmts"]:
                d, rv = s_["dst"], s_["rv"]
                if d.get("p") or d["l"] in alias:
                    continue
                if rv["k"] == "ref":
                    pl = rv["place"]
                    if is_root(pl):
                        alias[d["l"]] = bool(rv.get("mut"))
                        changed = True
                    elif pl["l"] in alias and pl.get("p") == ["*"]:
                        alias[d["l"]] = bool(rv.get("mut")) and alias[pl["l"]]
                        changed = True
                elif rv["k"] == "use" and len(rv.get("ops", [])) == 1 and isinstance(rv["ops"][0], dict) and rv["ops"][0].get("l") in alias and not rv["ops"][0].get("p"):
                    alias[d["l"]] = alias[rv["ops"][0]["l"]]
                    changed = True
    return alias


def _classify(pretty, callee, i, mutable, depth=0):
    """what a call does to the collection whose reference is its i-th argument: 'fill', 'use' (drained, iterated,
    shown) or None (only measured)"""
    if re.search(r" as (?:std|core)::ops::Drop>::drop$", pretty):
        return "drop"
    if not mutable:
        return None if NEUTRAL_READS.search(pretty) else "use"
    if FILLERS.search(pretty):
        return "fill" if i == 0 else "use"
    fn = mirlib.index().get(callee)
    if fn is None:
        # a trait method called on a type parameter: what its implementations in the workspace do
        impls = [fid for fid, f in mirlib.index().items() if f.get("trait_item") == callee and not f.get("gen")]
        if not impls:
            return "use"  # mem::take, drain, iter_mut, sort ..: not decided here
        roles = set()
        for fid in impls:
            roles |= param_roles(fid, i + 1, depth + 1)
    elif fn.get("gen"):
        return "use"
    else:
        roles = param_roles(callee, i + 1, depth + 1)
    if "drain" in roles:
        return "use"
    if "fill" in roles:
        return "fill"
    return None


def param_roles(fid, P, depth=0):
    """roles of the `&mut Vec<Report>` parameter P of workspace function fid: 'fill' (reports are added through it),
    'drain' (its contents are moved elsewhere: it is the source of an append / extend, or handed to std code that takes it)"""
    key = (fid, P)
    if key in _ROLE_CACHE:
        return _ROLE_CACHE[key]
    _ROLE_CACHE[key] = set()
    fn = mirlib.index().get(fid)
    roles = set()
    if fn is None or depth > 6 or P >= len(fn["locals"]) or not REF_COLLECTION.search(str(fn["locals"][P])):
        return roles
    alias = {P: True}
    changed = True
    while changed:
        changed = False
        for b in fn["blocks"]:
            for s_ in b["stmts"]:
                d, rv = s_["dst"], s_["rv"]
                if d.get("p") or d["l"] in alias:
                    continue
                if rv["k"] == "ref" and rv["place"]["l"] in alias and rv["place"].get("p") == ["*"]:
                    alias[d["l"]] = bool(rv.get("mut"))
                    changed = True
                elif rv["k"] == "use" and len(rv.get("ops", [])) == 1 and isinstance(rv["ops"][0], dict) and rv["ops"][0].get("l") in alias and not rv["ops"][0].get("p"):
                    alias[d["l"]] = alias[rv["ops"][0]["l"]]
                    changed = True
    for b in fn["blocks"]:
        t = b["term"]
        if b.get("cleanup") or t["k"] != "call":
            continue
        for i, o in enumerate(t.get("args", [])):
            if isinstance(o, dict) and o.get("l") in alias and not o.get("p"):
                c = _classify(t.get("pretty") or "", t.get("callee"), i, alias[o["l"]], depth)
                if c == "fill":
                    roles.add("fill")
                elif c == "use" and alias[o["l"]]:
                    roles.add("drain")
    _ROLE_CACHE[key] = roles
    return roles


def filled_collections():
    """yield (fn, local, type, escape) for every local collection of reports created in a function and then filled
    there - lent mutably to a function of the workspace that adds to it, or the receiver of push / append / extend.
    From each such point every path must hand the collection on (move it, return it, append it to another one, lend
    it to a consumer) before it is dropped or the function returns: a `?` between the filling and the handing-on loses
    the reports gathered so far.  The branch on which `is_empty()` answered true is not followed."""
    idx = mirlib.index()
    for fid, fn in sorted(idx.items()):
        if fn.get("gen") or fn.get("exp") or _is_test(fn):
            continue
        for L, ty in enumerate(fn["locals"]):
            if L == 0 or L <= fn["argc"] or not isinstance(ty, str) or not COLLECTION.search(ty):
                continue
            alias = _ref_aliases(fn, lambda pl, L=L: pl["l"] == L and not pl.get("p"))
            if not alias:
                continue
            ev = {}
            empty_flags = set()
            any_fill = False
            for bi, b in enumerate(fn["blocks"]):
                if b.get("cleanup"):
                    continue
                e = []
                t = b["term"]
                for s_ in b["stmts"]:
                    rv = s_["rv"]
                    for o in rv.get("ops", []):
                        if isinstance(o, dict) and o.get("l") == L and o.get("mv") and not o.get("p"):
                            e.append("use")
                    if s_["dst"]["l"] == L and not s_["dst"].get("p"):
                        e.append("def")
                if t["k"] == "call":
                    pretty = t.get("pretty") or ""
                    for i, o in enumerate(t.get("args", [])):
                        if not isinstance(o, dict):
                            continue
                        if o.get("l") == L and o.get("mv") and not o.get("p"):
                            e.append("use")
                        elif o.get("l") in alias and not o.get("p"):
                            if pretty.endswith("::is_empty") and t.get("dst") and not t["dst"].get("p"):
                                empty_flags.add(t["dst"]["l"])
                            c = _classify(pretty, t.get("callee"), i, alias[o["l"]])
                            if c:
                                e.append(c)
                    if t.get("dst") and t["dst"]["l"] == L and not t["dst"].get("p"):
                        e.append("def")
                any_fill = any_fill or "fill" in e
                if e:
                    ev[bi] = e
            if not any_fill:
                continue

            def succ(blk):
                t = blk["term"]
                if t["k"] == "switch" and isinstance(t.get("discr"), dict) and t["discr"].get("l") in empty_flags and not t["discr"].get("p"):
                    return [x[1] for x in t["targets"] if x[0] == 0]  # only the `not empty` edge can lose something
                return _succ(t)

            bad = None
            for bi, e in ev.items():
                for i, x in enumerate(e):
                    if x != "fill" or bad:
                        continue
                    nxt = [y for y in e[i + 1:] if y in ("use", "def", "drop")]
                    if nxt:
                        if nxt[0] == "drop":
                            bad = ("dropped", bi)
                        continue
                    seen, st = set(), list(succ(fn["blocks"][bi]))
                    while st and not bad:
                        b = st.pop()
                        if b in seen:
                            continue
                        seen.add(b)
                        blk = fn["blocks"][b]
                        if blk.get("cleanup"):
                            continue
                        e2 = [y for y in ev.get(b, []) if y in ("use", "def", "drop")]
                        if e2 and e2[0] in ("use", "def"):
                            continue
                        if e2 and e2[0] == "drop":
                            bad = ("dropped", b)
                        elif blk["term"]["k"] == "return":
                            bad = ("function returns", b)
                        elif blk["term"]["k"] == "drop" and blk["term"]["place"]["l"] == L and not blk["term"]["place"].get("p"):
                            bad = ("dropped", b)
                        else:
                            st.extend(succ(blk))
            yield fn, L, ty, bad


def _name(fn, li):
    for k, v in (fn.get("names") or {}).items():
        if v == li or str(v) == str(li):
            return k
    nm = fn.get("names") or {}
    if str(li) in nm:
        return nm[str(li)]
    return "_%d" % li


def short_ty(ty):
    return re.sub(r"\b(?:[a-z_0-9]+::)+", "", ty)


def rule_consumed(ctx, R):
    ctx.rule(R, "no report-carrying value is discarded: in every hand-written function, each component of a Result / ControlFlow / Option / tuple value that holds a Report, a report collection or a lifting error is moved, borrowed or passed on by some statement (a component bound to `_` or never matched can only be dropped), and no such Result goes through ok() / unwrap_or*()")
    import os

    if os.environ.get("VERIF_SKIP_MIR_RULES") == "1":
        return ctx.note("%s skipped (VERIF_SKIP_MIR_RULES=1: syntax-only sweep of the tools)" % R)
    vals, discards = scan()
    n = 0
    seen = {}
    for fn, li, ty, c, hit in vals:
        key = "%s/%s%s" % (fn["pretty"], short_ty(ty), ("." + "".join(x.replace("as ", "::") if x.startswith("as ") else x for x in c)) if c else "")
        # several temporaries of one type in one function share a key: all must be touched
        prev = seen.get(key)
        seen[key] = (prev[0] and hit, prev[1] if prev and not prev[0] else (fn, li)) if prev else (hit, (fn, li))
    for key, (hit, (fn, li)) in sorted(seen.items()):
        n += 1
        ctx.check(R, key, hit, "touched" if hit else "this part of the value is never read, moved or borrowed in %s: the report(s) it carries are dropped silently" % fn["pretty"], (fn["file"], fn["line"]))
    for fn, t, meth, et in discards:
        if fn["pretty"] in DISCARD_OK:
            ctx.ok(R, "%s/Result::%s<%s>" % (fn["pretty"], meth, short_ty(et)), "reviewed: " + DISCARD_OK[fn["pretty"]], (fn["file"], t["line"]))
            continue
        ctx.bad(R, "%s/Result::%s<%s>" % (fn["pretty"], meth, short_ty(et)), "the error of this result is a report and %s() throws it away" % meth, (fn["file"], t["line"]))
    ctx.floor(R, "report-carrying components examined", n, 60)
    # a single report held by value is moved on along every path
    agg = {}
    for fn, L, ty, bad in single_reports():
        key = "%s/%s/moved-on-every-path" % (fn["pretty"], short_ty(ty))
        if key not in agg or bad:
            agg[key] = (fn, L, bad)
    for key, (fn, L, bad) in sorted(agg.items()):
        line = fn["line"]
        if bad:
            blk = fn["blocks"][bad[1]]
            line = blk["term"].get("line") or (blk["stmts"][0]["line"] if blk["stmts"] else line)
        ctx.check(R, key, not bad, "moved on (pushed, converted, returned) on every path" if not bad else "on some path through %s this report is not moved anywhere (%s near line %s): it is dropped without being shown" % (fn["pretty"], bad[0], line), (fn["file"], line))
    ctx.floor(R, "single-report values examined", len(agg), 60)
    # a collection of reports received from a callee is handed on along every path
    agg2 = {}
    for fn, L, ty, bad in received_collections():
        key = "%s/received-reports/handed-on-every-path" % fn["pretty"]
        if key not in agg2 or bad:
            agg2[key] = (fn, L, bad)
    for key, (fn, L, bad) in sorted(agg2.items()):
        line = fn["line"]
        if bad:
            blk = fn["blocks"][bad[1]]
            line = blk["term"].get("line") or (blk["stmts"][0]["line"] if blk["stmts"] else line)
        ctx.check(R, key, not bad, "appended, moved or lent to a consumer on every path" if not bad else "on some path through %s the reports received from a callee are not handed on (%s near line %s): they are dropped without being shown" % (fn["pretty"], bad[0], line), (fn["file"], line))
    ctx.floor(R, "received report collections examined", len(agg2), 4)
    # a collection created and filled in a function is handed on along every path
    agg3 = {}
    for fn, L, ty, bad in filled_collections():
        key = "%s/filled-reports/handed-on-every-path" % fn["pretty"]
        if key not in agg3 or bad:
            agg3[key] = (fn, L, bad)
    for key, (fn, L, bad) in sorted(agg3.items()):
        line = fn["line"]
        if bad:
            blk = fn["blocks"][bad[1]]
            line = blk["term"].get("line") or (blk["stmts"][0]["line"] if blk["stmts"] else line)
        ctx.check(R, key, not bad, "returned, moved, appended or lent to a consumer on every path after it was filled" if not bad else "on some path through %s the reports gathered in a local collection are not handed on (%s near line %s): they are dropped without being shown" % (fn["pretty"], bad[0], line), (fn["file"], line))
    ctx.floor(R, "locally filled report collections examined", len(agg3), 10)
