"""Evaluation of a `visit_statement`-like function of an analysis pass over a small abstract world.

The shape rules of the passes (which `if let`, which early return, which helper) break when the function is rewritten;
what the property states is a *table*: for which statements a report is pushed.  This module extends the finite
evaluator (finfun) by what the passes use - struct-like enum variants with named fields, strings, indexing, a
collection that records what is pushed into it, functions used as values, opaque results of functions that cannot be
evaluated - so that a rule can run the pass function on every member of a finite family of statements and compare the
pushes with the table.  Anything outside the supported subset raises Unsupported; the calling rule then falls back to
its shape obligations (fail closed)."""
from astlib import all_items, last, render, strip, walk
from finfun import NONE, ContinueEx, BreakEx, Iter, ReturnEx, S, Unsupported, World
import facts


class Panic(Exception):
    """the evaluated code would panic (index out of range, unwrap of None, explicit panic)"""


def V(enum, variant, **fields):
    return ("V", enum, variant, fields)


def O(name, **methods):
    """opaque object with a method table (method -> value)"""
    return ("O", name, tuple(methods.items()))


VEC_TYPES = ("Vec", "ReportCollection", "VecDeque")
MAP_TYPES = ("HashMap", "BTreeMap")


class MMap:
    """a map that is mutated in place (keys compared by identity or equality)"""

    def __init__(self, pairs=()):
        self.pairs = [list(p) for p in pairs]

    def find(self, k):
        for p in self.pairs:
            if p[0] is k or p[0] == k:
                return p
        return None

    def __repr__(self):
        return "MMap(%d)" % len(self.pairs)



VALUE_KEY = [None]  # a rule may say when two modelled objects are the same value: VALUE_KEY[0](v) -> hashable key or None


def same_value(x, y):
    if x is y or x == y:
        return True
    kf = VALUE_KEY[0]
    if kf is not None:
        kx = kf(x)
        return kx is not None and kx == kf(y)
    return False


class MSet:
    """a HashSet that is mutated in place (members compared by identity or equality)"""

    def __init__(self, items=()):
        self.items = []
        for x in items:
            self.add(x)

    def add(self, x):
        if not any(same_value(x, y) for y in self.items):
            self.items.append(x)
            return True
        return False

    def __repr__(self):
        return "MSet(%d)" % len(self.items)


def MSet_types():
    return (MSet,)


SET_TYPES = ("HashSet", "BTreeSet", "VariableUses", "IndexSet")


class Sink:
    """a `&mut Vec<_>` that records what is pushed"""

    def __init__(self):
        self.items = []

    def __repr__(self):
        return "Sink(%r)" % (self.items,)

    # two vectors are equal when their elements are (map keys that contain a vector, e.g. a variable with its access
    # path); identity is what the rules use to follow one particular collection
    def __eq__(self, other):
        return isinstance(other, Sink) and self.items == other.items

    def __ne__(self, other):
        return not self.__eq__(other)

    __hash__ = object.__hash__


class PassWorld(World):
    def __init__(self, files, fn_file):
        super().__init__(files)
        self.free = {}
        items = facts.ast().get(fn_file) or []
        for _p, it in all_items(items):
            if it["k"] == "Fn" and it.get("body") is not None and _p == "":
                self.free[it["name"]] = it
        if not self.free:
            for _p, it in all_items(items):
                if it["k"] == "Fn" and it.get("body") is not None:
                    self.free.setdefault(it["name"], it)
        # default methods of traits become methods of every implementing type that does not override them
        traits, impls = {}, []
        for f in files:
            for _p, it in all_items(facts.ast().get(f) or []):
                if it["k"] == "Trait":
                    traits[it["name"]] = {x["name"]: (x, f) for x in it.get("items", []) if x.get("k") == "Fn" and x.get("body") is not None}
                elif it["k"] == "Impl" and it.get("trait"):
                    impls.append((it["trait"].split("<")[0].strip(), it["self_ty"].split("<")[0].strip(), {x["name"] for x in it.get("items", []) if x.get("k") == "Fn"}))
        for tr, ty, own in impls:
            for nm, (fn_, f_) in traits.get(tr, {}).items():
                if nm not in own and (ty, nm) not in self.methods:
                    self.methods[(ty, nm)] = (fn_, f_)
        # impls written with a module path (`impl TryLift<()> for ast::Expression`): also known by the type's own name
        for (ty_, m_), v_ in list(self.methods.items()):
            if "::" in ty_ and (last(ty_), m_) not in self.methods:
                self.methods[(last(ty_), m_)] = v_
        self.stubs = {}
        self.struct_fields = {}
        self.type_aliases = {}
        for f in list(files) + [fn_file]:
            for _p, it in all_items(facts.ast().get(f) or []):
                if it["k"] == "TypeAlias" and it.get("ty"):
                    self.type_aliases[it["name"]] = str(it["ty"]).replace(" ", "")
        for f in files:
            for _p, it in all_items(facts.ast().get(f) or []):
                if it["k"] == "StructDef":
                    self.struct_fields[it["name"]] = [(x["name"], x["ty"].replace(" ", "")) for x in it["fields"]]
        # struct-like variants: name -> enum (for patterns written with glob imports)
        self.variant_owner = {}
        self.struct_variant_owner = {}
        for f in files:
            for _p, it in all_items(facts.ast().get(f) or []):
                if it["k"] == "Enum":
                    for v in it["variants"]:
                        self.variant_owner.setdefault(v["name"], set()).add(it["name"])
                        # (a unit / tuple variant of the same name elsewhere does not make a struct literal ambiguous)
                        if v.get("fields") and not all((f_.get("name") or "").isdigit() for f_ in v["fields"]):
                            self.struct_variant_owner.setdefault(v["name"], set()).add(it["name"])

    # --- patterns
    def bind(self, p, v, env, uses):
        k = p["k"]
        if k == "PStruct":
            name = last(p["path"])
            if isinstance(v, tuple) and v and v[0] == "V":
                if v[2] != name:
                    return False
                for f in p["fields"]:
                    if f["name"] not in v[3]:
                        raise Unsupported("field %s of %s not in the world" % (f["name"], name))
                    if f.get("shorthand"):
                        env[f["name"]] = v[3][f["name"]]
                        env["&" + f["name"]] = (v[3], f["name"])
                    else:
                        fp = f["pat"]
                        while fp["k"] == "PRef":
                            fp = fp["pat"]
                        if not self.bind(f["pat"], v[3][f["name"]], env, uses):
                            return False
                        if fp["k"] == "PIdent" and fp.get("sub") is None and not fp["name"][:1].isupper():
                            env["&" + fp["name"]] = (v[3], f["name"])
                return True
            if isinstance(v, tuple) and len(v) > 2 and v[0] == "S" and v[1] == name and name in self.structs and len(self.structs[name]) == len(v[2]):
                # a plain struct, destructured by field name
                for f in p["fields"]:
                    if f["name"] not in self.structs[name]:
                        raise Unsupported("field %s of struct %s" % (f["name"], name))
                    val_ = v[2][self.structs[name].index(f["name"])]
                    if f.get("shorthand"):
                        env[f["name"]] = val_
                    elif not self.bind(f["pat"], val_, env, uses):
                        return False
                return True
            if isinstance(v, tuple) and v and v[0] in ("E", "S", "O", "K") or v == NONE:
                if isinstance(v, tuple) and v[0] in ("O", "K"):
                    raise Unsupported("struct pattern against an opaque value")
                if isinstance(v, tuple) and v[0] == "E" and v[2] == name and not p["fields"]:
                    return True  # `Variant { .. }` also matches a unit variant
                return False
            raise Unsupported("struct pattern %s against %r" % (name, v))
        if k in ("PTupleStruct", "PTuple") and any(x["k"] == "PRest" for x in p["elems"]):
            # `Number(meta, ..)`: match the elements before and after the `..`
            i = [j for j, x in enumerate(p["elems"]) if x["k"] == "PRest"][0]
            before, after = p["elems"][:i], p["elems"][i + 1:]
            if k == "PTupleStruct":
                name = last(p["path"])
                if not (isinstance(v, tuple) and v and v[0] == "S"):
                    if isinstance(v, tuple) and v and v[0] in ("V", "E") or v == NONE:
                        return False
                    raise Unsupported("tuple struct pattern %s against %r" % (name, v))
                if v[1] != name:
                    return False
                items = v[2]
            else:
                if not (isinstance(v, tuple) and v and v[0] == "T"):
                    raise Unsupported("tuple pattern against %r" % (v,))
                items = v[1]
            if len(items) < len(before) + len(after):
                return False
            ok = all(self.bind(q, x, env, uses) for q, x in zip(before, items))
            return ok and all(self.bind(q, x, env, uses) for q, x in zip(after, items[len(items) - len(after):]))
        if k == "PRest":
            return True
        if k == "PSlice":
            items = list(v.items) if isinstance(v, Sink) else (list(v[1]) if isinstance(v, tuple) and v and v[0] == "L" else None)
            if items is None:
                raise Unsupported("slice pattern against %r" % (v,))
            rest = [j for j, x in enumerate(p["elems"]) if x["k"] == "PRest" or (x["k"] == "PIdent" and x.get("sub") is not None and x["sub"]["k"] == "PRest")]
            if not rest:
                return len(items) == len(p["elems"]) and all(self.bind(q, x, env, uses) for q, x in zip(p["elems"], items))
            i = rest[0]
            before, after = p["elems"][:i], p["elems"][i + 1:]
            if len(items) < len(before) + len(after):
                return False
            if p["elems"][i]["k"] == "PIdent":
                env[p["elems"][i]["name"]] = ("L", tuple(items[len(before):len(items) - len(after)]))
            return all(self.bind(q, x, env, uses) for q, x in zip(before, items)) and all(self.bind(q, x, env, uses) for q, x in zip(after, items[len(items) - len(after):]))
        if k == "PLit" and isinstance(v, str):
            return self.lit(p["lit"]) == v
        if k == "PTupleStruct" and isinstance(v, tuple) and v and v[0] == "V":
            return False
        if k == "PTupleStruct" and isinstance(v, tuple) and v and v[0] == "E" and last(p["path"]) != "Some":
            return False  # a unit variant never matches a tuple-variant pattern
        if k == "PIdent" and p.get("sub") is None and p["name"][:1].isupper() and isinstance(v, tuple) and v and v[0] == "V":
            return False
        if k == "PPath" and isinstance(v, tuple) and v and v[0] == "V":
            return False
        return super().bind(p, v, env, uses)

    def struct_field(self, sv, name):
        """the current value of field `name` of the plain struct value `sv` (assignments included)"""
        ov = getattr(self, "_struct_over", {}).get(id(sv))
        if ov is not None and ov[0] is sv and name in ov[1]:
            return ov[1][name]
        return sv[2][self.structs[sv[1]].index(name)]

    def k_receiver(self, k_):
        """the value an opaque method result `recv.m(..)` was computed from, or None"""
        ent = getattr(self, "_k_recv", {}).get(id(k_))
        return ent[1] if ent is not None and ent[0] is k_ else None

    def default_of(self, ty):
        """the Default value of a type text (sets, maps, vectors, options, booleans, structs of those)"""
        base = ty.split("<")[0]
        if ty in getattr(self, "type_aliases", {}):
            return self.default_of(self.type_aliases[ty])
        if base in SET_TYPES:
            return MSet()
        if base in MAP_TYPES:
            m_ = MMap()
            # the value type, for `entry(k).or_default()`
            inner = ty[len(base) + 1:-1] if ty.endswith(">") else ""
            depth, cut = 0, None
            for i_, ch in enumerate(inner):
                depth += ch == "<"
                depth -= ch == ">"
                if ch == "," and depth == 0:
                    cut = i_
                    break
            m_.value_type = inner[cut + 1:] if cut is not None else None
            return m_
        if base in VEC_TYPES:
            return Sink()
        if base == "Option":
            return NONE
        if ty == "bool":
            return False
        if ty in ("usize", "u32", "u64", "i32", "i64"):
            return 0
        if ty in self.struct_fields:
            return S(ty, *[self.default_of(t) for _n, t in self.struct_fields[ty]])
        raise Unsupported("default of " + ty)

    # opaque functions: path prefix -> callable(name, args) -> value   (set by the rule)
    opaque = ()
    max_rounds = 200  # bound on the iterations of one `while` / `loop` in a world
    lenient_opaque = False  # unknown methods of opaque values give opaque results instead of Unsupported

    def result_method(self, recv, m, args, uses):
        is_ok = isinstance(recv, tuple) and len(recv) > 2 and recv[0] == "S" and recv[1] == "Ok"
        is_err = isinstance(recv, tuple) and len(recv) > 2 and recv[0] == "S" and recv[1] == "Err"
        if not (is_ok or is_err):
            return NotImplemented
        inner = recv[2][0]
        if m == "ok" and not args:
            return S("Some", inner) if is_ok else NONE
        if m == "err" and not args:
            return S("Some", inner) if is_err else NONE
        if m == "is_ok" and not args:
            return is_ok
        if m == "is_err" and not args:
            return is_err
        if m == "map" and len(args) == 1:
            return S("Ok", self.apply(args[0], [inner], uses)) if is_ok else recv
        if m == "map_err" and len(args) == 1:
            return recv if is_ok else S("Err", self.apply(args[0], [inner], uses))
        if m == "and_then" and len(args) == 1:
            return self.apply(args[0], [inner], uses) if is_ok else recv
        if m == "unwrap_or" and len(args) == 1:
            return inner if is_ok else args[0]
        if m == "unwrap_or_else" and len(args) == 1:
            return inner if is_ok else self.apply(args[0], [inner], uses)
        if m == "map_or" and len(args) == 2:
            return self.apply(args[1], [inner], uses) if is_ok else args[0]
        if m in ("unwrap", "expect"):
            if is_ok:
                return inner
            raise Panic("unwrap of an Err")
        if m in ("as_ref", "as_mut", "clone") and not args:
            return recv
        return NotImplemented

    # --- expressions
    def eval(self, e, env, uses):
        k = e["k"]
        if k == "Struct":
            name = last(e["path"])
            segs_s = e["path"].split("::")
            if len(segs_s) >= 2 and segs_s[-2] == "Self":
                try:
                    st_ = self.self_type(env)
                    if st_ in self.enums and name in self.enums[st_]:
                        segs_s = segs_s[:-2] + [st_, name]
                except Unsupported:
                    pass
            owner = segs_s[-2] if len(segs_s) >= 2 and segs_s[-2] in self.enums and name in self.enums[segs_s[-2]] else (list(self.variant_owner[name])[0] if name in self.variant_owner and len(self.variant_owner[name]) == 1 else (list(self.struct_variant_owner[name])[0] if len(self.struct_variant_owner.get(name, ())) == 1 else None))
            if name not in self.structs and owner is not None:
                fields = {}
                for f in e["fields"]:
                    fields[f["name"]] = self.eval(f["e"], env, uses)
                return ("V", owner, name, fields)
        if k == "Try":
            def typed_(x, depth=0):
                # `it.collect()?` (possibly inside the block an inlined helper left): the `?` says it is a Result
                if x.get("k") == "MethodCall" and x.get("method") == "collect" and not x.get("args") and not x.get("turbofish"):
                    return dict(x, turbofish="Result<Vec<_>>")
                if x.get("k") == "Paren" and depth < 4:
                    return dict(x, e=typed_(x["e"], depth + 1))
                if x.get("k") == "Block" and depth < 4 and x.get("stmts") and x["stmts"][-1].get("k") == "ExprStmt" and not x["stmts"][-1].get("semi"):
                    return dict(x, stmts=x["stmts"][:-1] + [dict(x["stmts"][-1], e=typed_(x["stmts"][-1]["e"], depth + 1))])
                return x

            inner_ = typed_(e["e"])
            v = self.eval(inner_, env, uses)
            if isinstance(v, tuple) and len(v) > 2 and v[0] == "S" and v[1] in ("Ok", "Err"):
                if v[1] == "Ok":
                    return v[2][0]
                raise ReturnEx(v)
            env2 = dict(env)
            env2["__try"] = v
            return super().eval(dict(e, e={"k": "Path", "path": "__try", "line": 0}), env2, uses)
        if k == "Call" and e["func"]["k"] == "Path" and e["func"]["path"] not in env:
            p0 = e["func"]["path"]
            for prefix, fn_ in self.opaque:
                if p0.startswith(prefix):
                    args = [self.eval(a, env, uses) for a in e["args"]]
                    return fn_(p0[len(prefix):], args)
            if p0 in ("Ok", "Err") and len(e["args"]) == 1:
                return S(p0, self.eval(e["args"][0], env, uses))
            if p0 in ("std::iter::repeat", "iter::repeat", "repeat", "core::iter::repeat") and len(e["args"]) == 1 and p0 not in self.free:
                return ("REPEAT", self.eval(e["args"][0], env, uses))
            if p0 in ("Box::new", "Rc::new", "Arc::new", "std::boxed::Box::new") and len(e["args"]) == 1:
                return self.eval(e["args"][0], env, uses)  # a box is its content
        if k == "Cast":
            v = self.eval(e["e"], env, uses)
            ty_ = str(e.get("ty") or "").replace(" ", "")
            if isinstance(v, int) and not isinstance(v, bool) and ty_ in ("i64", "u64", "usize", "isize", "i128", "u128", "i32", "u32"):
                if ty_.startswith("u") and v < 0:
                    raise Unsupported("cast of a negative number to " + ty_)
                return v
            if isinstance(v, tuple) and v and v[0] in ("O", "K"):
                return v
            raise Unsupported("cast of %r to %s" % (v, ty_))
        if k == "Index":
            b = self.eval(e["base"], env, uses)
            if e["index"]["k"] == "Range":
                if e["index"].get("from") is None and e["index"].get("to") is None:
                    return b  # `x[..]`: the whole string / slice
                raise Unsupported("range index")
            i = self.eval(e["index"], env, uses)
            if isinstance(b, Sink) and isinstance(i, int):
                if i >= len(b.items):
                    raise Panic("index %d out of range (len %d)" % (i, len(b.items)))
                return b.items[i]
            if isinstance(b, tuple) and b and b[0] == "L" and isinstance(i, int):
                if i >= len(b[1]):
                    raise Panic("index %d out of range (len %d)" % (i, len(b[1])))
                return b[1][i]
            raise Unsupported("index into %r" % (b,))
        if k == "Path":
            p = e["path"]
            if p.startswith("Self::") and p not in env:
                try:
                    st_ = self.self_type(env)
                    if st_ in self.enums and p[6:] in self.enums[st_]:
                        return super().eval(dict(e, path="%s::%s" % (st_, p[6:])), env, uses)
                except Unsupported:
                    pass
            if p not in env and last(p) in self.free and "::" not in p:
                return ("F", p)
            if p in ("Some", "Ok", "Err", "Option::Some", "Result::Ok", "Result::Err") and p not in env:
                return ("PY", lambda x, p=p: S(last(p), x))  # a constructor used as a function value
            if p in ("Box::new", "Rc::new", "Arc::new") and p not in env:
                return ("PY", lambda x: x)
            sg0 = p.split("::")
            if self.lenient_opaque and len(sg0) == 2 and sg0[0][:1].isupper() and sg0[1][:1].islower() and p not in env and (sg0[0], sg0[1]) not in self.methods and sg0[0] != "Self":
                def assoc_(*a, p=p, m_=sg0[1]):
                    # `Type::method` applied to (receiver, ..) is `receiver.method(..)` when the receiver is an object the rule models
                    if a and isinstance(a[0], tuple) and len(a[0]) > 2 and a[0][0] == "O":
                        v_ = dict(a[0][2]).get(m_)
                        if isinstance(v_, tuple) and v_ and v_[0] == "PY":
                            return v_[1](*a[1:])
                        if v_ is not None and len(a) == 1:
                            return v_
                    return ("K", p, tuple(a))
                return ("PY", assoc_)  # an associated function of a type defined elsewhere, used as a function value
            if self.lenient_opaque and len(sg0) == 2 and sg0[0][:1].isupper() and sg0[1][:1].isupper() and p not in env and sg0[0] not in self.enums and sg0[0] not in self.structs and self.variant(p, uses + list(self.file_uses)) is None and p not in self.consts:
                return ("O", p, ())  # a unit variant / associated constant of a type defined elsewhere
        if k == "Field":
            b = self.eval(e["base"], env, uses)
            if isinstance(b, tuple) and b and b[0] == "V":
                if e["member"] in b[3]:
                    return b[3][e["member"]]
                raise Unsupported("field %s not in the world" % e["member"])
            if isinstance(b, tuple) and b and b[0] == "O":
                for k_, v_ in (b[2] if len(b) > 2 else ()):
                    if k_ == e["member"] and not (isinstance(v_, tuple) and v_ and v_[0] == "PY"):
                        return v_  # a public field of an opaque struct
                return ("O", "%s.%s" % (b[1], e["member"]))
            if isinstance(b, tuple) and len(b) > 2 and b[0] == "S" and b[1] in self.structs:
                ov = getattr(self, "_struct_over", {}).get(id(b))
                if ov is not None and ov[0] is b and e["member"] in ov[1]:
                    return ov[1][e["member"]]  # a field of a plain struct that was assigned to (see Assign)
        if k == "Call" and e["func"]["k"] == "Path":
            p = e["func"]["path"]
            segs_ = p.split("::")
            if len(segs_) >= 2 and segs_[-2] in SET_TYPES + VEC_TYPES and segs_[-1] in ("from", "from_iter") and len(e["args"]) == 1 and p not in env:
                a_ = self.eval(e["args"][0], env, uses)
                items_ = a_.rest() if isinstance(a_, Iter) else (list(a_.items) if isinstance(a_, (MSet, Sink)) else (list(a_[1]) if isinstance(a_, tuple) and a_ and a_[0] == "L" else ([("T", (k_, v_)) for k_, v_ in a_.pairs] if isinstance(a_, MMap) else None)))
                if items_ is None:
                    raise Unsupported("%s of %r" % (p, a_))
                if segs_[-2] in SET_TYPES:
                    return MSet(items_)
                sk_ = Sink()
                sk_.items = items_
                return sk_
            if len(segs_) >= 2 and segs_[-2] in SET_TYPES and segs_[-1] in ("new", "with_capacity", "default") and p not in env:
                for a in e["args"]:
                    self.eval(a, env, uses)
                return MSet()
            if len(segs_) >= 2 and segs_[-1] in ("default", "new") and not e["args"] and p not in env and segs_[-2] in self.struct_fields and (segs_[-2], segs_[-1]) not in self.methods:
                return self.default_of(segs_[-2])
            if len(segs_) >= 2 and segs_[-2] in MAP_TYPES and segs_[-1] in ("new", "with_capacity", "default") and p not in env:
                for a in e["args"]:
                    self.eval(a, env, uses)
                mp_ = MMap()
                g_ = e["func"].get("generics") or []
                mp_.value_type = g_[1].replace(" ", "") if len(g_) == 2 else None
                return mp_
            if len(segs_) >= 2 and segs_[-2] in VEC_TYPES and segs_[-1] in ("new", "with_capacity", "default") and p not in env:
                for a in e["args"]:
                    self.eval(a, env, uses)
                return Sink()
            if p in env and isinstance(env[p], tuple) and env[p] and env[p][0] == "C":
                args = [self.eval(a, env, uses) for a in e["args"]]
                return self.apply(env[p], args, uses)
            if p in env and isinstance(env[p], tuple) and env[p] and env[p][0] == "PY":
                args = [self.eval(a, env, uses) for a in e["args"]]
                return env[p][1](*args)
            if p in env and isinstance(env[p], tuple) and env[p] and env[p][0] == "F":
                args = [self.eval(a, env, uses) for a in e["args"]]
                return self._free_call(env[p][1], args)
            if "::" not in p and p in self.free and p not in env:
                args = [self.eval(a, env, uses) for a in e["args"]]
                cells_ = []
                for a in e["args"]:
                    a0 = strip(a)
                    while a0["k"] in ("Ref", "Paren") or (a0["k"] == "Unary" and a0.get("op") == "*"):
                        a0 = strip(a0["e"])
                    cells_.append(env.get("&" + a0["path"]) if a0["k"] == "Path" else None)
                self._pending_cells = cells_ if any(c_ is not None for c_ in cells_) else None
                try:
                    return self._free_call(p, args)
                finally:
                    self._pending_cells = None
            if p not in env and last(p) in self.stubs and ("::" not in p or all(sg_ and (sg_[0].islower() or sg_[0] == "_") for sg_ in p.split("::")[:-1])):
                args = [self.eval(a, env, uses) for a in e["args"]]
                return self.stubs[last(p)](args)  # a function defined elsewhere (possibly named with its module path), modelled by the rule
            sg_ = p.split("::")
            if self.lenient_opaque and len(sg_) >= 2 and p not in env and (sg_[-2], sg_[-1]) not in self.methods and sg_[-1] not in ("Some", "Ok", "Err", "max", "min") and sg_[-2] not in self.enums and sg_[-1] not in self.structs and sg_[-2][:1].isupper() and sg_[-2] != "Self" and sg_[-2] not in VEC_TYPES and sg_[-2] not in MAP_TYPES:
                args = [self.eval(a, env, uses) for a in e["args"]]
                if not any(isinstance(a, (Sink, MMap)) and n_.get("k") == "Ref" and n_.get("mut") for a, n_ in zip(args, e["args"])):
                    return ("K", p, tuple(args))  # an associated function of a type defined elsewhere
            if self.lenient_opaque and "::" not in p and p not in env and p[:1].islower() and p not in ("max", "min"):
                args = [self.eval(a, env, uses) for a in e["args"]]
                if any(isinstance(a, (Sink, MMap)) and n_.get("k") == "Ref" and n_.get("mut") for a, n_ in zip(args, e["args"])):
                    raise Unsupported("unknown function %s takes a collection it may change" % p)
                return ("K", p, tuple(args))  # a function defined elsewhere: opaque result
        if k == "MethodCall" and e["method"] in ("eq", "ne") and len(e["args"]) == 1:
            a_ = self.eval(e["recv"], env, uses)
            b_ = self.eval(e["args"][0], env, uses)
            if isinstance(a_, tuple) and a_ and a_[0] == "E" and isinstance(b_, tuple) and b_ and b_[0] == "E":
                return (a_ == b_) == (e["method"] == "eq")
        if k == "MethodCall" and e["method"] == "unwrap_or_default" and not e["args"]:
            recv = self.eval(e["recv"], env, uses)
            if isinstance(recv, tuple) and len(recv) > 2 and recv[0] == "S" and recv[1] in ("Some", "Ok"):
                return recv[2][0]
            # nothing there: the default of the value type of the map that was asked
            r_ = strip(e["recv"])
            if r_["k"] == "MethodCall" and r_["method"] in ("min", "max") and not r_["args"]:
                return 0  # the evaluator orders integers only (Iterator::min / max above)
            while r_["k"] == "MethodCall" and r_["method"] in ("cloned", "copied", "as_ref", "as_deref"):
                r_ = strip(r_["recv"])
            if r_["k"] == "MethodCall" and r_["method"] in ("get", "remove", "get_mut"):
                mp_ = self.eval(r_["recv"], env, uses)
                if isinstance(mp_, MMap) and getattr(mp_, "value_type", None):
                    return self.default_of(mp_.value_type)
            raise Unsupported("unwrap_or_default of a value of unknown type")
        if k == "MethodCall":
            m = e["method"]
            recv = self.eval(e["recv"], env, uses)
            if m == "clone" and not e["args"] and isinstance(recv, tuple) and len(recv) > 2 and recv[0] == "S" and recv[1] in ("Some", "Ok") and len(recv[2]) == 1:
                in_ = recv[2][0]
                if isinstance(in_, tuple) and len(in_) > 2 and in_[0] == "O" and isinstance(dict(in_[2]).get("clone"), tuple) and dict(in_[2])["clone"][0] == "PY":
                    return S(recv[1], dict(in_[2])["clone"][1]())  # an option of a mutable object the rule models: the copy is a copy
            if isinstance(recv, MSet):
                args = [self.eval(a, env, uses) for a in e["args"]]
                if m == "insert" and len(args) == 1:
                    return recv.add(args[0])
                if m == "extend" and len(args) == 1:
                    a = args[0]
                    items = a.items if isinstance(a, (MSet, Sink)) else (a.rest() if isinstance(a, Iter) else (list(a[1]) if isinstance(a, tuple) and a and a[0] == "L" else None))
                    if items is None:
                        raise Unsupported("extend with %r" % (a,))
                    for x in list(items):
                        recv.add(x)
                    return ("T", ())
                if m in ("clone", "to_owned") and not args:
                    return MSet(recv.items)
                if m in ("iter", "into_iter", "drain") and not args:
                    return Iter(list(recv.items))
                if m == "len" and not args:
                    return len(recv.items)
                if m == "is_empty" and not args:
                    return not recv.items
                if m == "contains" and len(args) == 1:
                    return any(same_value(args[0], y) for y in recv.items)
                if m in ("is_subset", "is_superset", "is_disjoint") and len(args) == 1 and isinstance(args[0], MSet):
                    has = lambda st, x: any(x is y or x == y for y in st.items)  # noqa: E731
                    if m == "is_subset":
                        return all(has(args[0], x) for x in recv.items)
                    if m == "is_superset":
                        return all(has(recv, x) for x in args[0].items)
                    return not any(has(args[0], x) for x in recv.items)
                if m in ("difference", "intersection") and len(args) == 1 and isinstance(args[0], MSet):
                    inb = lambda x: any(x is y or x == y for y in args[0].items)  # noqa: E731
                    return Iter([x for x in recv.items if inb(x) == (m == "intersection")])
                if m == "remove" and len(args) == 1:
                    for i_, y in enumerate(recv.items):
                        if same_value(args[0], y):
                            del recv.items[i_]
                            return True
                    return False
                if m == "union" and len(args) == 1 and isinstance(args[0], MSet):
                    return Iter(list(MSet(recv.items + args[0].items).items))
                raise Unsupported("set method " + m)
            ret_ = (getattr(self, "_ret_stack", None) or [""])[-1].replace(" ", "")
            if (isinstance(recv, Iter) or (isinstance(recv, tuple) and recv and recv[0] == "L")) and m == "collect" and not e["args"] and ("Result<" in str(e.get("turbofish") or "").replace(" ", "") or (not e.get("turbofish") and "Result<" in ret_ and "Vec<" in ret_ and env.get("__tail_of_fn") is not False)):
                items_ = recv.rest() if isinstance(recv, Iter) else list(recv[1])
                if not e.get("turbofish") and (not all(isinstance(x, tuple) and len(x) > 2 and x[0] == "S" and x[1] in ("Ok", "Err") for x in items_) or (not items_ and not ret_.startswith("Result<Vec<"))):
                    # an untyped collect in a function that returns a Result of vectors, over elements that are not
                    # results: a plain vector (e.g. one component of the tuple that is returned)
                    sk_ = Sink()
                    sk_.items = list(items_)
                    return sk_
                for x in items_:
                    if isinstance(x, tuple) and len(x) > 2 and x[0] == "S" and x[1] == "Err":
                        return x  # the first error wins
                if not all(isinstance(x, tuple) and len(x) > 2 and x[0] == "S" and x[1] == "Ok" for x in items_):
                    raise Unsupported("collect into Result of non-results")
                return S("Ok", ("L", tuple(x[2][0] for x in items_)))
            if (isinstance(recv, Iter) or (isinstance(recv, tuple) and recv and recv[0] == "L")) and m == "collect" and not e["args"] and "Vec" in str(e.get("turbofish") or "") and "Option" not in str(e.get("turbofish") or "") and "Result" not in str(e.get("turbofish") or ""):
                sk_ = Sink()
                sk_.items = recv.rest() if isinstance(recv, Iter) else list(recv[1])
                return sk_
            if isinstance(recv, Iter) and m == "collect" and not e["args"] and any(t_ in str(e.get("turbofish") or "") for t_ in SET_TYPES):
                items_ = recv.rest()
                if "Option<" in str(e.get("turbofish") or "").replace(" ", ""):
                    if any(x == NONE for x in items_):
                        return NONE
                    if not all(isinstance(x, tuple) and len(x) > 2 and x[0] == "S" and x[1] == "Some" for x in items_):
                        raise Unsupported("collect into Option of non-options")
                    return S("Some", MSet([x[2][0] for x in items_]))
                return MSet(items_)
            if isinstance(recv, MMap):
                args = [self.eval(a, env, uses) for a in e["args"]]
                if m == "insert" and len(args) == 2:
                    p_ = recv.find(args[0])
                    if p_ is None:
                        recv.pairs.append([args[0], args[1]])
                        return NONE
                    old_ = p_[1]
                    p_[1] = args[1]
                    return S("Some", old_)
                if m in ("get", "get_mut") and len(args) == 1:
                    p_ = recv.find(args[0])
                    return S("Some", p_[1]) if p_ else NONE
                if m == "contains_key" and len(args) == 1:
                    return recv.find(args[0]) is not None
                if m == "remove" and len(args) == 1:
                    p_ = recv.find(args[0])
                    if p_ is None:
                        return NONE
                    recv.pairs.remove(p_)
                    return S("Some", p_[1])
                if m == "len" and not args:
                    return len(recv.pairs)
                if m == "is_empty" and not args:
                    return not recv.pairs
                if m in ("iter", "into_iter") and not args:
                    return Iter([("T", (a_, b_)) for a_, b_ in recv.pairs])
                if m == "keys" and not args:
                    return Iter([a_ for a_, _b in recv.pairs])
                if m == "values" and not args:
                    return Iter([b_ for _a, b_ in recv.pairs])
                if m == "clone" and not args:
                    return MMap(recv.pairs)
                if m == "entry" and len(args) == 1:
                    return ("ENTRY", recv, args[0])
                raise Unsupported("map method " + m)
            if isinstance(recv, tuple) and recv and recv[0] == "ENTRY":
                mp_, key_ = recv[1], recv[2]
                p_ = mp_.find(key_)
                if m == "or_default" and not e["args"]:
                    if p_ is None:
                        vt_ = getattr(mp_, "value_type", None)
                        if not vt_:
                            raise Unsupported("or_default on a map of unknown value type")
                        p_ = [key_, self.default_of(vt_)]
                        mp_.pairs.append(p_)
                    return p_[1]
                if m == "or_insert" and len(e["args"]) == 1:
                    v_ = self.eval(e["args"][0], env, uses)
                    if p_ is None:
                        p_ = [key_, v_]
                        mp_.pairs.append(p_)
                    return p_[1]
                if m in ("or_insert_with", "or_insert_with_key") and len(e["args"]) == 1:
                    if p_ is None:
                        f_ = self.eval(e["args"][0], env, uses)
                        p_ = [key_, self.apply(f_, [] if m == "or_insert_with" else [key_], uses)]
                        mp_.pairs.append(p_)
                    return p_[1]
                raise Unsupported("entry method " + m)
            if isinstance(recv, Sink):
                args = [self.eval(a, env, uses) for a in e["args"]]
                if m in ("iter", "into_iter", "drain", "iter_mut") and (not args or m == "drain"):
                    return Iter(list(recv.items))
                if m == "len" and not args:
                    return len(recv.items)
                if m == "is_empty" and not args:
                    return not recv.items
                if m in ("clone", "to_vec", "to_owned") and not args:
                    c_ = Sink()
                    c_.items = list(recv.items)
                    return c_
                if m == "remove" and len(args) == 1 and isinstance(args[0], int):
                    if args[0] >= len(recv.items):
                        raise Panic("remove(%d) on a vector of length %d" % (args[0], len(recv.items)))
                    return recv.items.pop(args[0])
                if m == "pop" and not args:
                    return S("Some", recv.items.pop()) if recv.items else NONE
                if m == "insert" and len(args) == 2 and isinstance(args[0], int):
                    if args[0] > len(recv.items):
                        raise Panic("insert(%d) into a vector of length %d" % (args[0], len(recv.items)))
                    recv.items.insert(args[0], args[1])
                    return ("T", ())
                if m in ("first", "last") and not args:
                    return S("Some", recv.items[0 if m == "first" else -1]) if recv.items else NONE
                if m in ("get", "get_mut") and len(args) == 1 and isinstance(args[0], int):
                    return S("Some", recv.items[args[0]]) if 0 <= args[0] < len(recv.items) else NONE
                if m == "reverse" and not args:
                    recv.items.reverse()
                    return ("T", ())
                if m in ("sort_by_key", "sort_unstable_by_key", "sort_by_cached_key") and len(args) == 1:
                    def plain(k_):
                        if isinstance(k_, (int, str)) and not isinstance(k_, bool):
                            return k_
                        if isinstance(k_, tuple) and k_ and k_[0] == "T" and all(isinstance(x, (int, str)) for x in k_[1]):
                            return tuple(k_[1])
                        raise Unsupported("sort key %r" % (k_,))
                    keyed = [(plain(self.apply(args[0], [x], uses)), i, x) for i, x in enumerate(recv.items)]
                    if len({type(k_[0]) for k_ in keyed}) > 1:
                        raise Unsupported("sort keys of different types")
                    keyed.sort(key=lambda t_: (t_[0], t_[1]))
                    recv.items[:] = [t_[2] for t_ in keyed]
                    return ("T", ())
                if m == "dedup" and not args:
                    out_ = []
                    for x in recv.items:
                        if not (out_ and (out_[-1] is x or out_[-1] == x)):
                            out_.append(x)
                    recv.items[:] = out_
                    return ("T", ())
                if m == "truncate" and len(args) == 1 and isinstance(args[0], int):
                    del recv.items[args[0]:]
                    return ("T", ())
                if m == "clear" and not args:
                    del recv.items[:]
                    return ("T", ())
                if m == "swap_remove" and len(args) == 1 and isinstance(args[0], int):
                    if args[0] >= len(recv.items):
                        raise Panic("swap_remove(%d) on a vector of length %d" % (args[0], len(recv.items)))
                    x = recv.items[args[0]]
                    recv.items[args[0]] = recv.items[-1]
                    recv.items.pop()
                    return x
                if m == "split_off" and len(args) == 1 and isinstance(args[0], int):
                    if args[0] > len(recv.items):
                        raise Panic("split_off(%d) on a vector of length %d" % (args[0], len(recv.items)))
                    t_ = Sink()
                    t_.items = recv.items[args[0]:]
                    del recv.items[args[0]:]
                    return t_
                if m == "retain" and len(args) == 1:
                    keep_ = []
                    for x in recv.items:
                        r_ = self.apply(args[0], [x], uses)
                        if not isinstance(r_, bool):
                            raise Unsupported("retain with a predicate that returns %r" % (r_,))
                        if r_:
                            keep_.append(x)
                    recv.items[:] = keep_
                    return ("T", ())
                if m in ("sort", "sort_unstable") and not args:
                    if all(isinstance(x, int) and not isinstance(x, bool) for x in recv.items) or all(isinstance(x, str) for x in recv.items):
                        recv.items.sort()
                        return ("T", ())
                    raise Unsupported("sort of values that are neither all integers nor all strings")
                if m == "try_into" and not args:
                    # (the repository's only fallible conversion of a vector is into a NonEmptyVec)
                    return S("Ok", recv) if recv.items else S("Err", O("empty-vector"))
                if m == "into" and not args:
                    return recv
                if m == "push" and len(args) == 1:
                    recv.items.append(args[0])
                    return ("T", ())
                if m in ("extend", "append") and len(args) == 1:
                    a = args[0]
                    if isinstance(a, Sink):
                        recv.items.extend(a.items)
                        a.items = [] if m == "append" else a.items
                        return ("T", ())
                    if isinstance(a, Iter):
                        recv.items.extend(a.rest())
                        return ("T", ())
                    if isinstance(a, tuple) and a and a[0] == "L":
                        recv.items.extend(a[1])
                        return ("T", ())
                    if isinstance(a, tuple) and (a == NONE or (a[0] == "S" and a[1] == "Some")):
                        if a != NONE:
                            recv.items.append(a[2][0])
                        return ("T", ())
                if m == "clone_from" and len(args) == 1:
                    a = args[0]
                    src_ = list(a.items) if isinstance(a, Sink) else (list(a[1]) if isinstance(a, tuple) and a and a[0] == "L" else None)
                    if src_ is not None:
                        recv.items = src_
                        return ("T", ())
                if m == "get" and len(args) == 1 and isinstance(args[0], int):
                    return S("Some", recv.items[args[0]]) if 0 <= args[0] < len(recv.items) else NONE
                if m == "contains" and len(args) == 1:
                    return any(args[0] is y or args[0] == y for y in recv.items)
                if m in ("first", "last") and not args:
                    return S("Some", recv.items[0 if m == "first" else -1]) if recv.items else NONE
                raise Unsupported("method %s on the report sink" % m)
            rm = self.result_method(recv, m, [self.eval(a, env, uses) for a in e["args"]], uses) if (isinstance(recv, tuple) and len(recv) > 2 and recv[0] == "S" and recv[1] in ("Ok", "Err")) else NotImplemented
            if rm is not NotImplemented:
                return rm
            if isinstance(recv, str):
                if m in ("as_str", "to_string", "as_ref", "clone", "to_owned", "borrow", "deref") and not e["args"]:
                    return recv
                args = [self.eval(a, env, uses) for a in e["args"]]
                if m in ("eq", "ne") and len(args) == 1:
                    return (recv == args[0]) == (m == "eq")
                if m == "len" and not args:
                    return len(recv)
                if m == "is_empty" and not args:
                    return recv == ""
                if m in ("find", "rfind") and len(args) == 1 and isinstance(args[0], str):
                    i_ = recv.find(args[0]) if m == "find" else recv.rfind(args[0])
                    return S("Some", len(recv[:i_].encode("utf-8"))) if i_ >= 0 else NONE
                if m in ("contains", "starts_with", "ends_with") and len(args) == 1 and isinstance(args[0], str):
                    return {"contains": args[0] in recv, "starts_with": recv.startswith(args[0]), "ends_with": recv.endswith(args[0])}[m]
                if m in ("to_lowercase", "to_uppercase", "to_ascii_lowercase", "to_ascii_uppercase", "trim") and not args:
                    return {"to_lowercase": recv.lower(), "to_ascii_lowercase": recv.lower(), "to_uppercase": recv.upper(), "to_ascii_uppercase": recv.upper(), "trim": recv.strip()}[m]
                raise Unsupported("string method " + m)
            if isinstance(recv, Sink) and m in ("into_iter", "iter_mut"):
                return Iter(list(recv.items))
            if (isinstance(recv, Iter) or (isinstance(recv, tuple) and recv and recv[0] == "L")) and m in ("filter_map", "flat_map", "chain", "for_each", "count", "enumerate", "rev", "flatten", "find", "position", "try_for_each", "skip", "take", "zip", "sum", "inspect", "find_map", "max", "min", "unzip", "take_while", "skip_while", "map_while", "fold", "last", "nth"):
                it = recv if isinstance(recv, Iter) else Iter(recv[1])
                args = [self.eval(a, env, uses) for a in e["args"]]
                if m == "unzip" and not args:
                    prs = it.rest()
                    if not all(isinstance(x, tuple) and x and x[0] == "T" and len(x[1]) == 2 for x in prs):
                        raise Unsupported("unzip of non-pairs")
                    la, lb = Sink(), Sink()
                    la.items, lb.items = [x[1][0] for x in prs], [x[1][1] for x in prs]
                    return ("T", (la, lb))

                def some(x):
                    return isinstance(x, tuple) and len(x) > 1 and x[0] == "S" and x[1] == "Some"

                def seq(x):
                    if isinstance(x, Iter):
                        return x.rest()
                    if isinstance(x, (Sink, MSet)):
                        return list(x.items)
                    if isinstance(x, tuple) and x and x[0] == "L":
                        return list(x[1])
                    if x == NONE:
                        return []
                    if some(x):
                        return [x[2][0]]
                    if isinstance(x, tuple) and len(x) > 2 and x[0] == "S" and x[1] in ("Ok", "Err"):
                        return [x[2][0]] if x[1] == "Ok" else []  # a Result iterates over its Ok value
                    raise Unsupported("not a sequence: %r" % (x,))

                if m == "filter_map" and len(args) == 1:
                    out = []
                    for x in it.rest():
                        r = self.apply(args[0], [x], uses)
                        if some(r):
                            out.append(r[2][0])
                        elif r != NONE:
                            raise Unsupported("filter_map closure returned %r" % (r,))
                    return Iter(out)
                if m == "flat_map" and len(args) == 1:
                    out = []
                    for x in it.rest():
                        out.extend(seq(self.apply(args[0], [x], uses)))
                    return Iter(out)
                if m == "flatten" and not args:
                    out = []
                    for x in it.rest():
                        out.extend(seq(x))
                    return Iter(out)
                if m == "chain" and len(args) == 1:
                    return Iter(it.rest() + seq(args[0]))
                if m in ("for_each", "inspect") and len(args) == 1:
                    items = it.rest()
                    for x in items:
                        self.apply(args[0], [x], uses)
                    return ("T", ()) if m == "for_each" else Iter(items)
                if m == "try_for_each" and len(args) == 1:
                    # stops at the first Err / None, which is the result; Ok(()) / Some(()) otherwise
                    kind_ = None
                    for x in it.rest():
                        r_ = self.apply(args[0], [x], uses)
                        if isinstance(r_, tuple) and len(r_) > 2 and r_[0] == "S" and r_[1] == "Err":
                            return r_
                        if r_ == NONE:
                            return NONE
                        if isinstance(r_, tuple) and len(r_) > 2 and r_[0] == "S" and r_[1] in ("Ok", "Some"):
                            kind_ = r_[1]
                            continue
                        raise Unsupported("try_for_each over %r" % (r_,))
                    return S(kind_ or "Ok", ("T", ()))
                if m == "count" and not args:
                    return len(it.rest())
                if m == "enumerate" and not args:
                    return Iter([("T", (i, x)) for i, x in enumerate(it.rest())])
                if m == "rev" and not args:
                    return Iter(list(reversed(it.rest())))
                if m == "zip" and len(args) == 1:
                    return Iter([("T", (x, y)) for x, y in zip(it.rest(), seq(args[0]))])
                if m in ("skip", "take") and len(args) == 1 and isinstance(args[0], int):
                    r = it.rest()
                    return Iter(r[args[0]:] if m == "skip" else r[:args[0]])
                if m in ("take_while", "skip_while") and len(args) == 1:
                    r = it.rest()
                    k_ = 0
                    while k_ < len(r):
                        t_ = self.apply(args[0], [r[k_]], uses)
                        if not isinstance(t_, bool):
                            raise Unsupported("%s with a predicate that returns %r" % (m, t_))
                        if not t_:
                            break
                        k_ += 1
                    return Iter(r[:k_] if m == "take_while" else r[k_:])
                if m == "map_while" and len(args) == 1:
                    out = []
                    for x in it.rest():
                        r_ = self.apply(args[0], [x], uses)
                        if some(r_):
                            out.append(r_[2][0])
                        elif r_ == NONE:
                            break
                        else:
                            raise Unsupported("map_while closure returned %r" % (r_,))
                    return Iter(out)
                if m == "fold" and len(args) == 2:
                    acc_ = args[0]
                    for x in it.rest():
                        acc_ = self.apply(args[1], [acc_, x], uses)
                    return acc_
                if m == "last" and not args:
                    r = it.rest()
                    return S("Some", r[-1]) if r else NONE
                if m in ("min", "max") and not args:
                    r = it.rest()
                    if not all(isinstance(x, int) and not isinstance(x, bool) for x in r):
                        raise Unsupported("iterator method %s over non-integers" % m)
                    return S("Some", (min if m == "min" else max)(r)) if r else NONE
                if m == "nth" and len(args) == 1 and isinstance(args[0], int):
                    r = it.items[it.pos:]
                    it.pos = min(len(it.items), it.pos + args[0] + 1)
                    return S("Some", r[args[0]]) if args[0] < len(r) else NONE
                if m == "find" and len(args) == 1:
                    while it.pos < len(it.items):
                        x = it.items[it.pos]
                        it.pos += 1
                        if self.truth(self.apply(args[0], [x], uses)):
                            return S("Some", x)
                    return NONE
                if m == "find_map" and len(args) == 1:
                    while it.pos < len(it.items):
                        x = it.items[it.pos]
                        it.pos += 1
                        r = self.apply(args[0], [x], uses)
                        if some(r):
                            return r
                    return NONE
                if m == "position" and len(args) == 1:
                    i = 0
                    while it.pos < len(it.items):
                        x = it.items[it.pos]
                        it.pos += 1
                        if self.truth(self.apply(args[0], [x], uses)):
                            return S("Some", i)
                        i += 1
                    return NONE
                raise Unsupported("iterator method " + m)
            if isinstance(recv, tuple) and recv and recv[0] == "L" and m in ("to_vec", "to_owned", "clone", "as_slice") and not e["args"]:
                return recv
            if isinstance(recv, tuple) and recv and recv[0] == "L" and m in ("sort", "sort_unstable") and not e["args"]:
                r_ = strip(e["recv"])
                if r_["k"] == "Path" and r_["path"] in env and all(isinstance(x, int) for x in recv[1]):
                    env[r_["path"]] = ("L", tuple(sorted(recv[1])))  # a list value is immutable: rebind the variable
                    return ("T", ())
                raise Unsupported("sort of a list that is not a plain variable of integers")
            if isinstance(recv, tuple) and recv and recv[0] == "L" and m == "contains" and len(e["args"]) == 1:
                a = self.eval(e["args"][0], env, uses)
                if isinstance(a, tuple) and a and a[0] in ("O", "K"):
                    raise Unsupported("membership of an opaque value")
                return a in recv[1]
            if isinstance(recv, tuple) and recv and recv[0] == "L" and m in ("first", "get"):
                args = [self.eval(a, env, uses) for a in e["args"]]
                i = 0 if m == "first" else args[0]
                return S("Some", recv[1][i]) if isinstance(i, int) and i < len(recv[1]) else NONE
            if isinstance(recv, tuple) and recv and recv[0] == "S" and recv[1] in self.variant_owner and recv[1] != "Some":
                owners = [o for o in self.variant_owner[recv[1]] if (o, m) in self.methods]
                if len(owners) == 1:
                    args = [self.eval(a, env, uses) for a in e["args"]]
                    return self.call_fn(self.methods[(owners[0], m)][0], [recv] + args)
            if isinstance(recv, tuple) and recv and recv[0] == "V" and m in ("clone", "to_owned", "borrow", "as_ref", "as_mut", "deref") and not e["args"] and (recv[1], m) not in self.methods:
                return recv
            if isinstance(recv, tuple) and recv and recv[0] == "V" and (recv[1], m) in getattr(self, "method_stubs", {}):
                args = [self.eval(a, env, uses) for a in e["args"]]
                return self.method_stubs[(recv[1], m)](recv, args)
            if isinstance(recv, tuple) and recv and recv[0] == "V":
                args = [self.eval(a, env, uses) for a in e["args"]]
                ty = recv[1]
                if (ty, m) in self.methods:
                    return self.call_fn(self.methods[(ty, m)][0], [recv] + args)
                if self.lenient_opaque and m == "to_string" and not args:
                    return ("K", "%s::%s.to_string" % (recv[1], recv[2]), ())  # the Display text of a value: opaque
                raise Unsupported("method %s on %s::%s" % (m, recv[1], recv[2]))
            if isinstance(recv, tuple) and recv and recv[0] in ("O", "K"):
                if recv[0] == "O" and len(recv) > 2 and m in dict(recv[2]):
                    args = [self.eval(a, env, uses) for a in e["args"]]
                    v_ = dict(recv[2])[m]
                    if isinstance(v_, tuple) and v_ and v_[0] == "PY":
                        return v_[1](*args)
                    return v_
                if recv[0] == "O" and len(recv) > 2 and "*" in dict(recv[2]):
                    args = [self.eval(a, env, uses) for a in e["args"]]
                    return dict(recv[2])["*"][1](m, args)  # catch-all: (method, args) -> value
                if m in ("clone", "to_owned", "borrow", "as_ref") and not e["args"]:
                    return recv
                if self.lenient_opaque:
                    args = [self.eval(a, env, uses) for a in e["args"]]
                    k_ = ("K", "%s.%s" % (recv[1], m), tuple(args))
                    if not hasattr(self, "_k_recv"):
                        self._k_recv = {}
                    self._k_recv[id(k_)] = (k_, recv)  # what the opaque result was computed from (see k_receiver)
                    return k_
                raise Unsupported("method %s on opaque %s" % (m, recv[1]))
            if isinstance(recv, str) and m in ("to_string", "to_owned", "clone", "as_str", "into", "as_ref") and not e["args"]:
                return recv
            if isinstance(recv, int) and not isinstance(recv, bool) and m in ("to_string", "clone") and not e["args"]:
                return str(recv) if m == "to_string" else recv
            if isinstance(recv, int) and not isinstance(recv, bool) and m in ("saturating_sub", "saturating_add", "min", "max", "abs_diff", "wrapping_add") and len(e["args"]) == 1:
                b_ = self.eval(e["args"][0], env, uses)
                if isinstance(b_, int) and not isinstance(b_, bool):
                    return {"saturating_sub": max(0, recv - b_), "saturating_add": recv + b_, "min": min(recv, b_), "max": max(recv, b_), "abs_diff": abs(recv - b_), "wrapping_add": recv + b_}[m]
            if isinstance(recv, tuple) and recv and recv[0] == "REPEAT" and m == "take" and len(e["args"]) == 1:
                n_ = self.eval(e["args"][0], env, uses)
                if isinstance(n_, int) and not isinstance(n_, bool) and 0 <= n_ <= 100000:
                    return Iter([recv[1]] * n_)
                raise Unsupported("repeat(..).take(%r)" % (n_,))
            # evaluate with the receiver already computed: rebuild a node whose receiver is a bound name
            env2 = dict(env)
            env2["__recv"] = recv
            try:
                return super().eval(dict(e, recv={"k": "Path", "path": "__recv", "line": e.get("line", 0)}), env2, uses)
            except Unsupported as u:
                if "unwrap of None" in str(u):
                    raise Panic(str(u))
                raise
            finally:
                for k_ in env:
                    if k_ in env2:
                        env[k_] = env2[k_]
        if k == "Range":
            lo = self.eval(e["from"], env, uses) if e.get("from") is not None else None
            hi = self.eval(e["to"], env, uses) if e.get("to") is not None else None
            if isinstance(lo, int) and isinstance(hi, int) and not isinstance(lo, bool):
                if e.get("inclusive") or e.get("limits") == "..=":
                    hi += 1
                return ("L", tuple(range(lo, hi)))
            if self.lenient_opaque and lo is not None and hi is not None and not (e.get("inclusive") or e.get("limits") == "..="):
                return ("V", "Range", "Range", {"start": lo, "end": hi})  # a range over opaque positions: a value, not iterated
            raise Unsupported("range with unknown bounds")
        if k in ("While", "Loop"):
            rounds = 0
            while True:
                rounds += 1
                if rounds > self.max_rounds:
                    raise Unsupported("loop does not end within %d rounds in this world" % self.max_rounds)
                if k == "While":
                    c = e["cond"]
                    if c["k"] == "Let":
                        v = self.eval(c["e"], env, uses)
                        env2 = dict(env)
                        if not self.bind(c["pat"], v, env2, uses):
                            break
                        bound = {b_["name"] for b_ in walk(c["pat"]) if b_["k"] == "PIdent"}
                    else:
                        if not self.truth(self.eval(c, env, uses)):
                            break
                        env2, bound = dict(env), set()
                else:
                    env2, bound = dict(env), set()
                stop = False
                loop_value = ("T", ())
                try:
                    self.eval(e["body"], env2, uses)
                except ContinueEx:
                    pass
                except BreakEx as bx:
                    stop = True
                    if bx.v is not None and k == "Loop":
                        loop_value = bx.v  # `break value`: the value of the `loop` expression
                for k_ in env:
                    if k_ not in bound and k_ in env2:
                        env[k_] = env2[k_]
                if stop:
                    return loop_value
            return ("T", ())
        if k == "For":
            # `for x in &mut v` / `for x in v.iter_mut()` over a vector: `*x = ..` writes the element
            it0 = e["iter"]
            while it0["k"] == "Paren":
                it0 = it0["e"]
            mut_src = None
            if it0["k"] == "Ref" and it0.get("mut"):
                mut_src = it0["e"]
            elif it0["k"] == "MethodCall" and it0["method"] == "iter_mut" and not it0["args"]:
                mut_src = it0["recv"]
            if mut_src is not None and e["pat"]["k"] == "PIdent" and e["pat"].get("sub") is None:
                src_ = self.eval(mut_src, env, uses)
                if isinstance(src_, Sink):
                    nm_ = e["pat"]["name"]
                    for i_ in range(len(src_.items)):
                        env2 = dict(env)
                        env2[nm_] = src_.items[i_]
                        env2["&" + nm_] = (src_.items, i_)
                        try:
                            self.eval(e["body"], env2, uses)
                        except ContinueEx:
                            pass
                        except BreakEx:
                            for k_ in env:
                                if k_ != nm_ and k_ in env2:
                                    env[k_] = env2[k_]
                            break
                        for k_ in env:
                            if k_ != nm_ and k_ in env2:
                                env[k_] = env2[k_]
                    return ("T", ())
            itv = self.eval(e["iter"], env, uses)
            if isinstance(itv, (Sink, MSet_types())):
                itv = Iter(list(itv.items))
            if isinstance(itv, MMap):
                itv = Iter([("T", (a_, b_)) for a_, b_ in itv.pairs])
            env["__it"] = itv
            try:
                return super().eval(dict(e, iter={"k": "Path", "path": "__it", "line": e.get("line", 0)}), env, uses)
            finally:
                env.pop("__it", None)
        if k == "Macro" and last(e["name"]) == "vec" and e.get("parsed"):
            sk = Sink()
            sk.items = [self.eval(x, env, uses) for x in e["args"]]
            return sk
        if k == "Macro":
            name = last(e["name"])
            if name in ("trace", "debug", "info", "warn", "error"):
                return ("T", ())
            if name in ("panic", "unreachable", "unimplemented", "todo"):
                raise Panic(name + "!")
            if name in ("assert", "debug_assert") and e.get("parsed") and e.get("args"):
                if not self.truth(self.eval(e["args"][0], env, uses)):
                    raise Panic("assertion failed: " + render(e["args"][0])[:60])
                return ("T", ())
            if name == "format":
                # `format!("{a}.{b}")` / `format!("{}.{}", a, b)` over strings and numbers is the string itself
                args_ = e.get("args") or []
                if e.get("parsed") and args_ and args_[0].get("k") == "Lit" and args_[0].get("lit") == "str":
                    fmt = str(args_[0].get("value"))
                    # (the raw text follows renamings done by the normaliser; the parsed literal may not)
                    raw_ = str(e.get("raw") or "")
                    m_raw = __import__("re").match(r'\s*"((?:[^"\\]|\\.)*)"', raw_)
                    if m_raw and "\\" not in m_raw.group(1):
                        fmt = m_raw.group(1)
                    rest = list(args_[1:])
                    out_, ok_, i_ = "", True, 0
                    import re as _re

                    for part in _re.split(r"(\{\{|\}\}|\{[^{}]*\})", fmt):
                        if part in ("{{", "}}"):
                            out_ += part[0]
                        elif part.startswith("{") and part.endswith("}"):
                            spec = part[1:-1]
                            if ":" in spec:
                                ok_ = False
                                break
                            if spec == "":
                                if i_ >= len(rest):
                                    ok_ = False
                                    break
                                v_ = self.eval(rest[i_], env, uses)
                                i_ += 1
                            elif spec in env:
                                v_ = env[spec]
                            else:
                                ok_ = False
                                break
                            if isinstance(v_, bool) or not isinstance(v_, (str, int)):
                                ok_ = False
                                break
                            out_ += str(v_)
                        else:
                            out_ += part
                    if ok_:
                        return out_
                return ("K", "format", (e.get("raw", ""),))
        if k == "Assign":
            l = e["l"]
            while l["k"] == "Paren" or (l["k"] == "Unary" and l["op"] == "*"):
                l = l["e"]
            r_ = strip(e["r"])
            if l["k"] == "Path" and isinstance(env.get(l["path"]), (MSet, Sink)) and r_["k"] == "MethodCall" and r_["method"] == "collect" and not r_["args"] and not r_.get("turbofish"):
                # `x = it.collect()`: the collection kind is that of the variable assigned
                it_ = self.eval(r_["recv"], env, uses)
                items_ = it_.rest() if isinstance(it_, Iter) else (list(it_[1]) if isinstance(it_, tuple) and it_ and it_[0] == "L" else None)
                if items_ is None:
                    raise Unsupported("collect of %r" % (it_,))
                if isinstance(env[l["path"]], MSet):
                    val = MSet(items_)
                else:
                    val = Sink()
                    val.items = items_
                env[l["path"]] = val
                if ("&" + l["path"]) in env:
                    cell, key = env["&" + l["path"]]
                    cell[key] = val
                return ("T", ())
            if l["k"] == "Path" and l["path"] in env and ("&" + l["path"]) in env:
                val = self.eval(e["r"], env, uses)
                env[l["path"]] = val
                cell, key = env["&" + l["path"]]
                cell[key] = val  # the binding came from a field of a node matched by reference: write through
                return ("T", ())
            if l["k"] == "MethodCall" and not l["args"]:
                base = self.eval(l["recv"], env, uses)
                if isinstance(base, tuple) and len(base) > 2 and base[0] == "O":
                    for k_, v_ in base[2]:
                        if k_ == "set:" + l["method"] and isinstance(v_, tuple) and v_[0] == "PY":
                            v_[1](self.eval(e["r"], env, uses))  # `*x.get_mut_f() = v`: the object records what it is given
                            return ("T", ())
                raise Unsupported("assignment through %s()" % l["method"])
            if l["k"] == "Field":
                base = self.eval(l["base"], env, uses)
                val = self.eval(e["r"], env, uses)
                if isinstance(base, tuple) and len(base) > 3 and base[0] == "V" and isinstance(base[3], dict):
                    base[3][l["member"]] = val  # a field of a struct value: assigned in place
                    return ("T", ())
                if isinstance(base, tuple) and len(base) > 2 and base[0] == "O":
                    for k_, v_ in base[2]:
                        if k_ == "set-field" and isinstance(v_, tuple) and v_[0] == "PY":
                            v_[1](l["member"], val)  # an opaque struct that records assignments to its fields
                            return ("T", ())
                if isinstance(base, tuple) and len(base) > 2 and base[0] == "S" and base[1] in self.structs and l["member"] in self.structs[base[1]]:
                    if not hasattr(self, "_struct_over"):
                        self._struct_over = {}
                    self._struct_over.setdefault(id(base), (base, {}))[1][l["member"]] = val  # plain structs are tuples: the new value is kept beside it
                    return ("T", ())
                raise Unsupported("assignment to field %s of %r" % (l["member"], base if not isinstance(base, tuple) else base[:2]))
        if k in ("Binary", "AssignOp") and e.get("op") in ("|=", "&=", "+=", "-=", "^="):
            l = e["l"]
            while l["k"] == "Paren" or (l["k"] == "Unary" and l["op"] == "*"):
                l = l["e"]
            if l["k"] != "Path" or l["path"] not in env:
                raise Unsupported("compound assignment to " + render(e["l"])[:40])
            a, b = env[l["path"]], self.eval(e["r"], env, uses)
            op = e["op"][:-1]
            if op in ("|", "&", "^") and isinstance(a, bool) and isinstance(b, bool):
                env[l["path"]] = {"|": a or b, "&": a and b, "^": a != b}[op]
            elif op in ("+", "-") and isinstance(a, int) and isinstance(b, int) and not isinstance(a, bool):
                env[l["path"]] = a + b if op == "+" else a - b
            else:
                raise Unsupported("compound assignment %s on %r" % (e["op"], a))
            return ("T", ())
        if k == "Binary" and e["op"] in ("+", "-", "*"):
            a, b = self.eval(e["l"], env, uses), self.eval(e["r"], env, uses)
            if isinstance(a, int) and isinstance(b, int) and not isinstance(a, bool) and not isinstance(b, bool):
                return {"+": a + b, "-": a - b, "*": a * b}[e["op"]]
            if e["op"] == "+" and isinstance(a, str) and isinstance(b, str):
                return a + b
            if self.lenient_opaque:
                return ("K", e["op"], (a, b))  # string concatenation / arithmetic on opaque values
            raise Unsupported("binary %s on %r" % (e["op"], a))
        if k == "Binary" and e["op"] in ("|", "&") :
            a, b = self.eval(e["l"], env, uses), self.eval(e["r"], env, uses)
            if isinstance(a, bool) and isinstance(b, bool):
                return (a or b) if e["op"] == "|" else (a and b)
            raise Unsupported("bit operation on %r" % (a,))
        if k == "Binary" and e["op"] in ("==", "!="):
            a, b = self.eval(e["l"], env, uses), self.eval(e["r"], env, uses)
            for x in (a, b):
                if isinstance(x, tuple) and x and x[0] in ("O", "K"):
                    raise Unsupported("comparison of an opaque value")
            return (a == b) == (e["op"] == "==")
        return super().eval(e, env, uses)

    def _free_call(self, name, args):
        if last(name) in self.stubs:
            return self.stubs[last(name)](args)
        fn = self.free.get(last(name))
        if fn is None:
            return ("K", last(name), tuple(args))
        sinks = [(a, list(a.items)) for a in args if isinstance(a, Sink)]

        def mutable_inside(x, depth=0):
            if isinstance(x, (Sink, MSet, MMap)):
                return True
            if depth > 3:
                return False
            if isinstance(x, tuple) and x and x[0] in ("S", "T", "L") and len(x) > 1:
                inner = x[2] if x[0] == "S" and len(x) > 2 else x[1]
                return isinstance(inner, tuple) and any(mutable_inside(y, depth + 1) for y in inner)
            if isinstance(x, tuple) and len(x) > 3 and x[0] == "V" and isinstance(x[3], dict):
                return any(mutable_inside(y, depth + 1) for y in x[3].values())
            return False

        try:
            return self.call_fn(fn, args)
        except Unsupported:
            for a, saved in sinks:
                a.items = saved
            if sinks or any(mutable_inside(a) for a in args):
                raise  # a function that may push / insert cannot be made opaque
            return ("K", last(name), tuple(args))


def run(world, fn, args):
    """evaluate fn(args); returns None on normal completion, or ('panic', text)"""
    try:
        world.call_fn(fn, args)
    except Panic as p:
        return ("panic", str(p))
    except (BreakEx, ContinueEx):
        raise Unsupported("break/continue outside a loop")
    return None


# ---------------------------------------------------------------- syntax-tree worlds
class Leaves:
    """numbered leaf nodes: expression leaves are `Number(meta_i, 0)`, statement leaves `Return { meta, value: leaf }`"""

    def __init__(self):
        self.metas = []

    def meta(self, tag):
        m = O("meta#%d:%s" % (len(self.metas), tag))
        self.metas.append(m)
        return m

    def expr(self, tag):
        return S("Number", self.meta(tag), 0)

    def stmt(self, tag):
        return V("Statement", "Return", meta=O("stmt-meta:" + tag), value=self.expr(tag))


def build_node(enum, vname, vdef, leaves, with_optional=True):
    """an instance of variant `vname` of an AST enum whose node-typed fields are filled with fresh leaves; returns
    (value, [(field, leaf expression meta)]) - the metas of all expression leaves below it, in field order"""
    fields = {}
    below = []

    def leaf_for(ty, tag):
        ty = ty.replace(" ", "")
        if ty in ("Expression", "Box<Expression>"):
            e = leaves.expr(tag)
            below.append((tag, e[2][0]))
            return e
        if ty in ("Statement", "Box<Statement>"):
            st = leaves.stmt(tag)
            below.append((tag, st[3]["value"][2][0]))
            return st
        if ty in ("Vec<Expression>", "Vec<Statement>"):
            inner = ty[4:-1]
            return ("L", tuple(leaf_for(inner, "%s[%d]" % (tag, i)) for i in range(2)))
        if ty in ("Option<Box<Statement>>", "Option<Box<Expression>>", "Option<Expression>", "Option<Statement>"):
            if not with_optional:
                return NONE
            inner = ty[7:-1]
            return S("Some", leaf_for(inner, tag))
        if ty in ("Vec<Access>", "Vec<AccessType>"):
            return ("L", (S("ArrayAccess", leaf_for("Expression", tag + "[0]")), S("ComponentAccess", "out"), S("ArrayAccess", leaf_for("Expression", tag + "[2]"))))
        if ty == "Vec<LogArgument>":
            return ("L", (S("LogStr", "text"), S("LogExp", leaf_for("Expression", tag + "[1]"))))
        return None

    tuple_like = all(f.get("name", "").isdigit() for f in vdef["fields"]) and vdef["fields"]
    vals = []
    for f in vdef["fields"]:
        v = leaf_for(f["ty"], f.get("name") or "?")
        if v is None and f["ty"].replace(" ", "") == "String":
            v = "%s_%s" % (vname.lower(), f.get("name"))  # names are compared with `==`: a plain string
        if v is None:
            v = O("%s.%s" % (vname, f.get("name")))
        if f.get("name") == "meta" or f["ty"].replace(" ", "") == "Meta":
            v = O("meta-of-%s" % vname)
        fields[f.get("name")] = v
        vals.append(v)
    node = S(vname, *vals) if tuple_like else V(enum, vname, **fields)
    return node, below
