"""C02 No silent failure."""
import re

import facts
from astlib import calls, find_fn, fns_in_file, last, method_calls, render, site, strip, walk
from pathcond import conditions_to, enumerate_paths, fact_str, facts_str, find_path, let_env
import reportflow
import a10
import c03
import dropflow

TITLE = "No silent failure"
LEVEL_TEXT = (
    "every report producer is classified by label coverage and matched against what the per-file display filter accepts;"
    " the error path of CFG generation keeps its report; every way through the file-queueing loop queues, recurses or reports;"
    " desugaring drops are reported; definition tables do not overwrite silently; exit status and summary evaluated over the displayed count;"
    " on MIR: no report-carrying value is left untouched, a single report is moved on along every path; the version gate is evaluated over all orderings; parse_files evaluated on projects of up to three files (every warning and error arrives once, `multiple main` for two mains wherever defined, archive errors and library reports arrive); a locally filled report collection is handed on along every path; add_files evaluated on one path of each kind (with every extra yes/no question it asks about a path as a further dimension); an error about an anonymous component call is located at the call."
)
NOT_DECIDED = "that a displayed error report describes the failure; that every definition of a parsed file is reached by the analysis loop beyond the user-input flag."
ENGINE = "mirfacts+astq"
TRUSTED = ["rustc MIR (engines/mirfacts) for C02.10", "syn parser", "path-condition extractor (rules/pathcond.py)", "C04.5: every AST/IR node carries a file id (discharges the `if let Some(file_id)` idiom)"]

RUN = "program_analysis/src/analysis_runner.rs"
INC = "parser/src/include_logic.rs"
SSR = "parser/src/syntax_sugar_remover.rs"
TL = "program_structure/src/program_library/template_library.rs"
MG = "program_structure/src/program_library/program_merger.rs"
LIB = "parser/src/lib.rs"


def rule_labels(ctx):
    R = "C02.1"
    ctx.rule(R, "every error-level report either carries a primary label on every path (so the per-file filter can pass it) or the filter accepts label-less errors; no producer attaches its label only on some paths")
    ps = reportflow.producers()
    ctx.floor(R, "report construction sites", len(ps), 40)
    tol, desc = reportflow.filter_tolerance()
    if tol is None:
        ctx.missing(R, "cli::filter_by_file", desc)
        tol = set()
    ctx.table("filter_by_file", {"label-less categories accepted": "all" if tol == "all" else sorted(tol), "body": desc})
    ctx.table("producers", ["%s %s::%s %s %s -> %s" % (p["file"].rsplit("/", 1)[-1], p["qual"], p["fn"], p["category"], p["code"], p["label"]) for p in ps])
    seen = {}
    for p in ps:
        key = "%s::%s/%s" % (p["qual"] or p["file"].rsplit("/", 1)[-1], p["fn"], p["code"].replace("ReportCode::", ""))
        if p["label"] in ("always", "if-file-id"):
            ctx.ok(R, key + "/labelled", "primary label on every path (%s)" % p["label"], site(p["file"], p["node"]))
        elif p["label"] == "if-meta":
            # every constructor call must pass Some(..)
            ty = p["qual"]
            bad = []
            n = 0
            for f in facts.ast():
                for q, fn in fns_in_file(f):
                    for c in calls(fn["body"], ty + "::new"):
                        n += 1
                        if not render(strip(c["args"][0])).startswith("Some("):
                            bad.append("%s::%s passes %s" % (q, fn["name"], render(c["args"][0])))
                    if q == ty:
                        for c in calls(fn["body"], "Self::new"):
                            n += 1
                            if not render(strip(c["args"][0])).startswith("Some("):
                                bad.append("%s::%s passes %s" % (q, fn["name"], render(c["args"][0])))
            ctx.check(R, key + "/labelled-when-constructed-with-meta", not bad and n > 0, "%d constructor call(s); without a meta: %s" % (n, bad), site(p["file"], p["node"]))
        elif p["label"] == "never":
            if p["category"] == "error":
                okk = tol == "all" or "Error" in tol
                ctx.check(R, key + "/label-less-error-passes-the-file-filter", okk, "this error report never has a primary label and filter_by_file (%s) drops every report without one: the failure ends in `No issues found.`" % desc[:120], site(p["file"], p["node"]))
            else:
                ctx.ok(R, key + "/label-less-non-error", "not an error report (display of findings is C03.6)", site(p["file"], p["node"]))
        else:
            # a label on some paths only: harmless for an error if the filter lets label-less errors through
            okk = p["category"] == "error" and (tol == "all" or "Error" in tol)
            ctx.check(R, key + "/label-on-some-paths-only", okk, p["detail"] + ": the report is discarded by the per-file filter on the paths without a label (filter accepts label-less: %s)" % ("all" if tol == "all" else sorted(tol)), site(p["file"], p["node"]))


def must_call_before(fn, target, names):
    """Is some method/function in `names` called, on every path, in a statement that precedes
    `target` in one of its enclosing blocks (or earlier in the same statement chain)?"""
    path = find_path(fn["body"], target) or []
    for parent, slot, child in path:
        if parent["k"] == "Block":
            for s in parent["stmts"]:
                if s is child:
                    break
                for _c, atoms, ex in enumerate_paths(s):
                    pass
                if all(any(_calls_named(a, names) for a in atoms) for _c, atoms, ex in enumerate_paths(s) if ex is None) and any(True for _ in enumerate_paths(s)):
                    return True
    return False


def _calls_named(node, names):
    for n in walk(node):
        if n["k"] == "MethodCall" and n["method"] in names:
            return True
        if n["k"] == "Call" and n["func"]["k"] == "Path" and last(n["func"]["path"]) in names:
            return True
    return False


def rule_error_path(ctx):
    R = "C02.2"
    ctx.rule(R, "in the CFG cache, every exit taken after CFG generation failed (`?`, return Err) is preceded by appending the collected reports to the per-definition report cache")
    import c03run

    if c03run.rule(ctx, R, only="lifting-fails"):
        # decided by evaluating the runner (rules/c03run.py): in the worlds in which lifting fails, what is displayed for the
        # definition is everything CFG generation produced plus the error; the shape obligations below are the fallback
        return
    for kind in ("template", "function"):
        fn = find_fn(RUN, "cache_" + kind)
        if fn is None:
            ctx.missing(R, "AnalysisRunner::cache_" + kind)
            continue
        gen = list(calls(fn["body"], "generate_cfg"))
        if len(gen) != 1:
            ctx.missing(R, "cache_%s/generate_cfg" % kind, "expected one call, found %d" % len(gen))
            continue
        g = gen[0]
        appender = "append_%s_reports" % kind
        # the statement holding the call
        path = find_path(fn["body"], g)
        # exits that depend on the result: `?` applied to an expression containing the call, or returns
        # inside the error handler (match Err arm / map_err closure is not an exit by itself)
        exits_ = []
        for n in walk(fn["body"]):
            if n["k"] == "Try" and any(x is g for x in walk(n["e"])):
                exits_.append(("?", n))
        # returns of Err located after the call in program order
        stmts = []
        for parent, slot, child in path:
            if parent["k"] == "Block":
                idx = [i for i, s in enumerate(parent["stmts"]) if s is child][0]
                stmts = parent["stmts"][idx:]  # keep the innermost block
        for s in stmts:
            for n in walk(s):
                if n["k"] == "Return" and n.get("e") is not None and render(strip(n["e"])).startswith("Err("):
                    exits_.append(("return", n))
        if not exits_:
            ctx.missing(R, "cache_%s/error-exit" % kind, "no error exit found after generate_cfg")
            continue
        for what, n in exits_:
            if what == "?":
                # the `?` leaves at once: an append can only precede it inside the same expression (map_err closure)
                inner = _calls_named(n["e"], {appender})
                ctx.check(R, "cache_%s/error-exit(?)/reports-appended-first" % kind, inner, "`?` on the result of generate_cfg returns before %s is called: the report of a failed lifting is dropped" % appender, site(RUN, n))
            else:
                okk = must_call_before(fn, n, {appender})
                ctx.check(R, "cache_%s/error-exit(return)/reports-appended-first" % kind, okk, "return %s not preceded by %s" % (render(n["e"])[:60], appender), site(RUN, n))
        # the failing report itself is added to the collection that is appended
        # the collection handed to generate_cfg receives the Err payload, and is the one given to the appender
        coll = render(strip(g["args"][2])) if len(g["args"]) >= 3 else "reports"
        lets_ = {}
        for n_ in walk(fn["body"]):
            if n_["k"] == "Local" and n_["pat"]["k"] == "PIdent" and n_["init"] is not None:
                lets_[n_["pat"]["name"]] = n_["init"]
        collected = False
        for p in [p for p in method_calls(fn["body"], "push") if render(strip(p["recv"])) == coll]:
            arg = render(strip(p["args"][0]))
            for c in conditions_to(fn["body"], p) or []:
                pat, scr = (c[1], c[2]) if c[0] == "iflet" and c[3] else ((c[2], c[1]) if c[0] == "arm" else (None, None))
                if pat is None:
                    continue
                sc = strip(scr)
                # (facts are stated over let definitions, as copies: compare by text)
                from_gen = render(g) in render(sc) or (sc["k"] == "Path" and sc["path"] in lets_ and render(g) in render(lets_[sc["path"]]))
                if from_gen and render(pat).replace(" ", "") == "Err(%s)" % arg:
                    collected = True
        apps_ = [a_ for a_ in method_calls(fn["body"], appender) if a_["args"]]
        appended = bool(apps_) and all(render(strip(a_["args"][-1])) == coll for a_ in apps_)  # every append hands over the whole collection
        ctx.check(R, "cache_%s/error-report-collected" % kind, collected and appended, "the boxed report of the failed lifting is pushed to `%s`, which is handed to %s" % (coll, appender), site(RUN, fn))
        # success path appends too
        app = [c for c in method_calls(fn["body"], appender)]
        ctx.check(R, "cache_%s/append-present" % kind, len(app) >= 1, "%d call(s) of %s" % (len(app), appender), site(RUN, fn))
    # generate_cfg converts both error kinds into reports
    g = find_fn(RUN, "generate_cfg")
    if g is None:
        ctx.missing(R, "generate_cfg")
    else:
        t = render(g["body"]).replace(" ", "")
        import sgrep
        okg = sgrep.has(g["body"], "__a.into_cfg(__c, __r).map_err(|__e| Box::new(__e.into()))?.into_ssa().map_err(|__f| Box::new(__f.into()))", sgrep.lets(g["body"]))
        ctx.check(R, "generate_cfg/both-stages-convert-errors", okg, t[:200], site(RUN, g))


def eval_add_files(ctx, R):
    """FileStack::add_files by evaluation (the whole function with its helpers, not only the loop body): one path of
    each kind is handed over - a directory that can / cannot be listed (holding one Circom file), listed before or not;
    a file without extension, with `.circom`, with another extension, canonicalisable or not - and what happens is
    observed: a file queued, a report pushed, the directory's entries visited.  Same obligation keys as the
    path-enumerating form below, which stays the fallback.  Returns True when decided."""
    import itertools

    import passeval
    from finfun import NONE as FN, S as FS, Unsupported
    from passeval import MSet, Panic, Sink

    ERRS_ = "parser/src/errors.rs"
    try:
        w = passeval.PassWorld([ERRS_, INC], INC)
    except Exception:  # noqa: BLE001
        return False
    w.lenient_opaque = True
    if ("FileStack", "add_files") not in w.methods or "FileStack" not in w.structs:
        return False
    fn = w.methods[("FileStack", "add_files")][0]
    st = site(INC, find_fn(INC, "add_files"))
    worlds = []
    for d, r, x, c in itertools.product((True, False), (True, False), (None, "circom", "txt"), (True, False)):
        if d and (x is not None or not c):
            continue
        if not d and not r:
            continue
        worlds.append({"dir": d, "readable": r, "ext": x, "canon": c, "fresh": True})
        if d:
            worlds.append({"dir": d, "readable": r, "ext": x, "canon": True, "fresh": False})

    def name(wd):
        ex_ = "".join(",%s" % k_ for k_, v_ in sorted(wd.get("extra", {}).items()) if v_) + ("" if wd["fresh"] else ",listed-before")
        if wd["dir"]:
            return "directory,%s%s" % ("readable" if wd["readable"] else "unreadable", ex_)
        return "file,%s,%s%s" % ("no-extension" if wd["ext"] is None else ("extension-circom" if wd["ext"] == "circom" else "extension-other"), "canonicalisable" if wd["canon"] else "not-canonicalisable", ex_)

    results = {}
    asked = set()
    try:
        pending = list(worlds)
        done_extra = set()
        while pending:
            wd = pending.pop(0)
            if not pending:
                # any other yes/no question the code asks about a path (`is_symlink()`, `exists()`, ..) is one more dimension
                for q_ in sorted(asked - done_extra):
                    done_extra.add(q_)
                    pending += [dict(w0, extra={q_: True}) for w0 in worlds]
            cells = {}
            keep = []
            visited_children = []

            def mk(text, is_dir=False, ext=None, canon=True, child=False):
                def ident():
                    return o

                def question(m_, a_):
                    if a_ or not (m_.startswith(("is_", "has_")) or m_ == "exists"):
                        raise Unsupported("method %s of a path" % m_)
                    asked.add(m_)
                    return wd.get("extra", {}).get(m_, m_ == "exists")

                o = ("O", "path", (("is_dir", is_dir), ("is_file", not is_dir), ("extension", FN if ext is None else FS("Some", ext)),
                                   ("display", text), ("to_string_lossy", text), ("clone", ("PY", ident)), ("to_path_buf", ("PY", ident)), ("to_owned", ("PY", ident)), ("as_path", ("PY", ident)), ("as_ref", ("PY", ident)),
                                   ("file_name", FS("Some", text.rsplit("/", 1)[-1])), ("*", ("PY", lambda m_, a_: question(m_, a_)))))
                cells[id(o)] = (text, canon, child)
                keep.append(o)
                return o

            passeval.VALUE_KEY[0] = lambda v: cells[id(v)][0] if isinstance(v, tuple) and id(v) in cells else None

            def canonicalize(args):
                t_ = cells.get(id(args[0]))
                if t_ is None:
                    raise Unsupported("a path made some other way: %r" % (args[0],))
                if t_[2]:
                    visited_children.append(t_[0])
                return FS("Ok", mk("/canonical" + t_[0], canon=True)) if t_[1] else FS("Err", ("O", "io-error", ()))

            def read_dir(args):
                if not wd["readable"]:
                    return FS("Err", ("O", "io-error", ()))
                child = mk("/in/dir/child.circom", ext="circom", canon=True, child=True)
                entry = ("O", "dir-entry", (("path", child),))
                return FS("Ok", passeval.Iter([FS("Ok", entry)]))

            w.stubs = {"canonicalize": canonicalize, "read_dir": read_dir}
            stack, reports, listed = Sink(), Sink(), MSet([])
            p0 = mk("/in/dir" if wd["dir"] else "/in/file" + ("" if wd["ext"] is None else "." + wd["ext"]), is_dir=wd["dir"], ext=wd["ext"], canon=wd["canon"])
            if not wd["fresh"]:
                listed.add(mk("/canonical/in/dir"))
            vals = {"current_location": FN, "black_paths": MSet([]), "user_inputs": MSet([]), "listed_dirs": listed, "libraries": Sink(), "stack": stack}
            fields = w.structs["FileStack"]
            if [f_ for f_ in fields if f_ not in vals]:
                raise Unsupported("FileStack has fields the world does not know")
            fs_ = FS("FileStack", *[vals[f_] for f_ in fields])
            try:
                w.call_fn(fn, [fs_, ("L", (p0,)), reports])
            finally:
                w.stubs = {}
                passeval.VALUE_KEY[0] = None
            eff = []
            if stack.items:
                eff.append("%d file(s) queued" % len(stack.items))
            if reports.items:
                eff.append("%d report(s)" % len(reports.items))
            if visited_children:
                eff.append("entries of the directory visited")
            results[name(wd)] = (wd, eff)
    except Unsupported as u:
        ctx.note("FileStack::add_files is outside the evaluator's subset (%s): the path-enumerating form applies" % u)
        return False
    except Panic as p_:
        ctx.bad(R, "add_files/evaluated/no-panic", "panics: %s" % p_, st)
        return True
    for nm, (wd, eff) in results.items():
        if not wd["fresh"]:
            ctx.check(R, "add_files/input[%s]" % nm, not [x_ for x_ in eff if "queued" in x_ and not wd["readable"]], "a directory that was listed before is skipped or listed again; effects: %s" % eff, st)
            continue
        if wd["ext"] != "circom" and not wd["dir"] and not wd["canon"]:
            continue
        ctx.check(R, "add_files/input[%s]" % nm, bool(eff), ("effects: %s" % eff) if eff else "a path of this kind named by the user is skipped without queueing, recursing or reporting", st)
    return True


def rule_add_files(ctx):
    R = "C02.3"
    ctx.rule(R, "for every kind of path named on the command line (directory readable or not; file without extension, with the `circom` extension, with another one; canonicalisable or not) the loop body of FileStack::add_files queues it, recurses into it, or pushes a report - decided by evaluating the body on each kind, so the way the tests are written does not matter")
    from astlib import inline_helpers
    import itertools

    if eval_add_files(ctx, R):
        return
    fn0 = find_fn(INC, "add_files")
    if fn0 is None:
        return ctx.missing(R, "FileStack::add_files")
    fn = inline_helpers(fn0, INC)
    loops = [n for n in walk(fn["body"]) if n["k"] == "For"]
    if len(loops) != 1:
        # several loops (e.g. one that lists a directory, read in from a helper): the one over the paths handed to add_files
        import sgrep as _sg

        pv_ = _sg.params(fn0)
        loops = [n for n in loops if pv_ and render(strip(n["iter"])).replace(" ", "").replace("&", "") in (pv_[0], pv_[0] + ".iter()")]
    if len(loops) != 1:
        return ctx.missing(R, "add_files/loop")
    lp = loops[0]
    pvar = render(lp["pat"]).replace("&", "").strip()

    class Unknown(Exception):
        pass

    SOME = lambda v: ("Some", v)
    NONE = ("None",)

    def ev(e, w, env):
        e = strip(e)
        k = e["k"]
        if k == "Path":
            if e["path"] in env:
                return env[e["path"]]
            if e["path"] == pvar:
                return ("path",)
            raise Unknown(e["path"])
        if k == "Lit":
            return e["value"]
        if k == "Unary" and e["op"] == "!":
            return not ev(e["e"], w, env)
        if k == "Binary" and e["op"] in ("&&", "||"):
            l = ev(e["l"], w, env)
            if e["op"] == "&&":
                return l and ev(e["r"], w, env)
            return l or ev(e["r"], w, env)
        if k == "Binary" and e["op"] in ("==", "!="):
            l, r = ev(e["l"], w, env), ev(e["r"], w, env)
            return (l == r) == (e["op"] == "==")
        if k == "MethodCall":
            m = e["method"]
            if m in ("insert", "contains") and len(e["args"]) == 1 and render(strip(e["recv"])).replace("&mut ", "").replace("&", "").startswith("self."):
                # a set of the file stack that remembers what was seen: one more yes/no dimension of the world
                ev(e["args"][0], w, env)
                fresh = w.get("fresh", True)
                return fresh if m == "insert" else (not fresh)
            recv = ev(e["recv"], w, env)
            if recv == ("path",):
                if m in w.get("extra", {}):
                    return w["extra"][m]
                if m == "is_dir":
                    return w["dir"]
                if m == "is_file":
                    return not w["dir"]
                if m == "extension":
                    return NONE if w["ext"] is None else SOME(w["ext"])
            if isinstance(recv, tuple) and recv and recv[0] in ("Some", "None", "Ok", "Err"):
                if m in ("is_some", "is_ok"):
                    return recv[0] in ("Some", "Ok")
                if m in ("is_none", "is_err"):
                    return recv[0] in ("None", "Err")
                if m == "map" and len(e["args"]) == 1 and e["args"][0]["k"] == "Closure":
                    if recv[0] in ("Some", "Ok"):
                        cl = e["args"][0]
                        nm = [b["name"] for b in walk(cl["inputs"][0]) if b["k"] == "PIdent"]
                        return (recv[0], ev(cl["body"], w, dict(env, **{nm[0]: recv[1]}) if nm else env))
                    return recv
                if m == "unwrap_or" and len(e["args"]) == 1:
                    return recv[1] if recv[0] in ("Some", "Ok") else ev(e["args"][0], w, env)
                if m == "unwrap_or_else" and len(e["args"]) == 1 and e["args"][0]["k"] == "Closure":
                    return recv[1] if recv[0] in ("Some", "Ok") else ev(e["args"][0]["body"], w, env)
                if m == "ok" and not e["args"]:
                    return ("Some", recv[1]) if recv[0] == "Ok" else (NONE if recv[0] == "Err" else recv)
                if m in ("map_or", "is_some_and", "map_or_else") and e["args"] and e["args"][-1]["k"] == "Closure":
                    cl = e["args"][-1]
                    if recv[0] in ("Some", "Ok"):
                        nm = [b["name"] for b in walk(cl["inputs"][0]) if b["k"] == "PIdent"]
                        return ev(cl["body"], w, dict(env, **{nm[0]: recv[1]}) if nm else env)
                    return ev(e["args"][0], w, env) if m == "map_or" else False
            if m in ("to_str", "to_string_lossy", "to_string", "as_ref", "unwrap_or_default") and not e["args"]:
                return recv
            raise Unknown(render(e)[:60])
        if k == "Call":
            f = render(e["func"])
            if f.endswith("read_dir"):
                return ("Ok", ("entries",)) if w["readable"] else ("Err", None)
            if f.endswith("canonicalize"):
                return ("Ok", ("canon",)) if w["canon"] else ("Err", None)
            if f in ("Some", "Ok") and len(e["args"]) == 1:
                return (f, ev(e["args"][0], w, env))
            raise Unknown(f)
        if k in ("Match", "If", "Block"):
            return ev_branch(e, w, env)
        if k == "Macro" and e["name"].endswith("matches") and e.get("parsed"):
            v = ev(e["args"][0], w, env)
            env2 = dict(env)
            return bind(e["pat"], v, env2) and (e.get("guard") is None or ev(e["guard"], w, env2))
        raise Unknown(k + ": " + render(e)[:60])

    def bind(p, v, env):
        while p["k"] in ("PRef", "PType"):
            p = p["pat"]
        k = p["k"]
        if k == "PWild":
            return True
        if k == "PIdent":
            if p["name"] in ("None",):
                return v == NONE
            env[p["name"]] = v
            return True
        if k == "PPath":
            return v == NONE if p["path"].endswith("None") else False
        if k == "PTupleStruct":
            ctor = p["path"].split("::")[-1]
            if not (isinstance(v, tuple) and v and v[0] == ctor):
                return False
            return bind(p["elems"][0], v[1] if len(v) > 1 else None, env) if p["elems"] else True
        if k == "PLit":
            return v == p["lit"]["value"]
        raise Unknown("pattern " + render(p))

    def ev_branch(e, w, env):
        if e["k"] == "Block":
            from astlib import block_tail

            t = block_tail(e)
            if t is None or len(e["stmts"]) != 1:
                raise Unknown("block")
            return ev(t, w, env)
        if e["k"] == "If":
            c = e["cond"]
            if c["k"] == "Let":
                env2 = dict(env)
                if bind(c["pat"], ev(c["e"], w, env), env2):
                    return ev(e["then"], w, env2)
                return ev(e["else"], w, env)
            return ev(e["then"], w, env) if ev(c, w, env) else ev(e["else"], w, env)
        v = ev(e["scrut"], w, env)
        for a in e["arms"]:
            env2 = dict(env)
            if bind(a["pat"], v, env2) and (a.get("guard") is None or ev(a["guard"], w, env2)):
                return ev(a["body"], w, env2)
        raise Unknown("no arm")

    def holds(f, w, env):
        """env: bindings made by the pattern facts earlier on the same path"""
        if f[0] == "if":
            return ev(f[1], w, env) == f[2]
        if f[0] == "iflet":
            return bind(f[1], ev(f[2], w, env), env) == f[3]
        if f[0] == "arm":
            return bind(f[2], ev(f[1], w, env), env) and (f[3] is None or ev(f[3], w, env))
        if f[0] == "notall":
            e2 = dict(env)
            return not all(holds(g, w, e2) for g in f[1])
        if f[0] == "loop":
            return True
        raise Unknown(fact_str(f))

    def path_possible(conds, w):
        env = {}
        for f in conds:
            if not holds(f, w, env):
                return False
        return True

    paths = enumerate_paths(lp["body"])
    ctx.floor(R, "add_files paths", len(paths), 4)
    # any other yes/no question the body asks about the path (`is_symlink()`, `exists()`, ..) is one more dimension
    extras = sorted({m_["method"] for m_ in walk(lp["body"]) if m_["k"] == "MethodCall" and not m_["args"] and render(strip(m_["recv"])) == pvar and (m_["method"].startswith(("is_", "has_")) or m_["method"] == "exists") and m_["method"] not in ("is_dir", "is_file")})
    # does the body remember the directories it has listed (a set of the file stack it inserts into)?
    remembers = any(m_["k"] == "MethodCall" and m_["method"] in ("insert", "contains") and render(strip(m_["recv"])).replace("&mut ", "").replace("&", "").startswith("self.") for m_ in walk(lp["body"]))
    worlds = []
    for d, r, x, c in itertools.product((True, False), (True, False), (None, "circom", "txt"), (True, False)):
        if d and (x is not None or not c):
            continue  # for a directory only readability matters
        if not d and not r:
            continue
        for vals in itertools.product((False, True), repeat=len(extras)):
            worlds.append({"dir": d, "readable": r, "ext": x, "canon": c, "extra": dict(zip(extras, vals))})
            if remembers and d:
                worlds.append({"dir": d, "readable": r, "ext": x, "canon": True, "extra": dict(zip(extras, vals)), "fresh": False})

    def name(w):
        ex_ = "".join(",%s" % k_ for k_, v_ in sorted(w.get("extra", {}).items()) if v_)
        if not w.get("fresh", True):
            ex_ += ",listed-before"
        if w["dir"]:
            return "directory,%s%s" % ("readable" if w["readable"] else "unreadable", ex_)
        return "file,%s,%s%s" % ("no-extension" if w["ext"] is None else ("extension-circom" if w["ext"] == "circom" else "extension-other"), "canonicalisable" if w["canon"] else "not-canonicalisable", ex_)

    try:
        for w in worlds:
            taken = [p_ for p_ in paths if path_possible(p_[0], w)]
            if len(taken) != 1:
                ctx.bad(R, "add_files/input[%s]/one-path" % name(w), "%d ways through the loop body are possible for this kind of path" % len(taken), site(INC, lp))
                continue
            conds, atoms, ex = taken[0]
            eff = []
            for a_ in atoms:
                for x_ in walk(a_):
                    if x_["k"] == "MethodCall" and x_["method"] in ("push", "add_files"):
                        eff.append("%s.%s" % (render(strip(x_["recv"]))[:30], x_["method"]))
            if not w.get("fresh", True):
                # a directory that was listed before: everything in it has been queued already, skipping it loses nothing
                ctx.check(R, "add_files/input[%s]" % name(w), not [x_ for x_ in eff if x_.endswith(".push")], "a directory that was listed before is skipped or listed again; effects: %s" % eff, site(INC, lp))
                continue
            if w["ext"] != "circom" and not w["dir"] and not w["canon"]:
                continue  # same outcome as the canonicalisable case of that kind: one representative is enough
            ctx.check(R, "add_files/input[%s]" % name(w), bool(eff), ("effects: %s" % eff) if eff else "a path of this kind named by the user is skipped without queueing, recursing or reporting", site(INC, lp))
    except Unknown as u:
        ctx.missing(R, "add_files/evaluation", "cannot evaluate the loop body: %s" % u)


def rule_desugar(ctx):
    R = "C02.4"
    ctx.rule(R, "when desugaring drops a template or function, a report is pushed first (templates) or the containment test reports through its callback (functions)")
    fn = find_fn(SSR, "remove_syntactic_sugar")
    if fn is None:
        return ctx.missing(R, "remove_syntactic_sugar")
    # every way through a definition loop that does not insert the definition into the new table must have reported
    loops = [n for n in walk(fn["body"]) if n["k"] == "For" and any(True for _ in method_calls(n["body"], "insert"))]
    ctx.floor(R, "definition loops", len(loops), 2)
    ndrop = 0

    def is_callback(e):
        e = strip(e)
        return e["k"] == "MethodCall" and e["method"] in ("contains_tuple", "contains_anonymous_component") and len(e["args"]) == 1 and render(strip(e["args"][0])).replace(" ", "").startswith("Some(")

    for li, lp in enumerate(loops):
        for conds, atoms, ex in enumerate_paths(lp["body"]):
            effs = [x["method"] for a_ in atoms for x in walk(a_) if x["k"] == "MethodCall" and x["method"] in ("insert", "push")]
            if "insert" in effs or ex == "panic":
                continue  # kept, or not a silent drop (panics are C01's subject)
            ndrop += 1
            okk, why = False, ""
            if "push" in effs:
                okk, why = True, "a report is pushed on this path"
            else:
                for f in conds:
                    if f[0] == "if" and f[2] and is_callback(f[1]):
                        okk, why = True, "drop guarded by %s (reports through the callback)" % fact_str(f)
                    # `a || b` taken: !( !a && !b ) - every disjunct must be a reporting callback
                    if f[0] == "notall" and f[1] and all(g[0] == "if" and not g[2] and is_callback(g[1]) for g in f[1]):
                        okk, why = True, "drop guarded by a disjunction of reporting callbacks"
            cs = [x.replace(" ", "")[:60] for x in facts_str(conds)]
            key = "remove_syntactic_sugar/loop%d/drop[%s]" % (li + 1, ";".join(cs))
            ctx.check(R, key, okk, why or "definition dropped without a report; path: %s" % cs, site(SSR, lp))
    ctx.floor(R, "drop paths", ndrop, 3)
    # the callbacks do push
    tr = "parser/src/syntax_sugar_traits.rs"
    n = 0
    for q, f in fns_in_file(tr):
        if f["name"] in ("contains_tuple", "contains_anonymous_component") and f.get("body"):
            n += 1
    ctx.floor(R, "containment predicates", n, 2)


def rule_tables(ctx):
    R = "C02.5"
    ctx.rule(R, "inserting a definition into a name-keyed table is guarded by a membership test or its return value is inspected (no silent overwrite of a duplicate definition)")
    import c17

    tl_decided = c17.eval_template_library(ctx, R)  # the library constructor by evaluation; its shape obligations are the fallback
    for file, fname in ((TL, "new"), (MG, "add_definitions")):
        if file == TL and tl_decided:
            continue
        fn = find_fn(file, fname)
        if fn is None:
            ctx.missing(R, "%s::%s" % (file, fname))
            continue
        ins = [n for n in method_calls(fn["body"], "insert")]
        ctx.floor(R, "%s inserts" % fname, len(ins), 2)
        for i in ins:
            recv = render(strip(i["recv"]))
            conds = conditions_to(fn["body"], i) or []
            guarded = any(re.search(r"contains_(key|function|template)", fact_str(c)) for c in conds)
            # is the value used?  (statement expression with `;` = discarded)
            path = find_path(fn["body"], i) or []
            used = True
            if path:
                parent, slot, child = path[-1]
                if parent["k"] == "ExprStmt" and parent["semi"]:
                    used = False
            which = "functions" if "function" in recv else ("templates" if "template" in recv else recv)
            qual = "TemplateLibrary" if file == TL else "Merger"
            ctx.check(R, "%s::%s/insert(%s)" % (qual, fname, which), guarded or used, "guarded=%s result-used=%s: a second definition with the same name silently replaces the first (which one survives depends on hash order)" % (guarded, used), site(file, i))


def rule_duplicate_label(ctx, R="C02.13"):
    ctx.rule(R, "the `duplicated function or template` error is located at the definition that is dropped, in the file being added (so it is displayed whenever that file is a user input): its primary label is (the dropped definition's location, the file id of the file being processed)")
    import c17

    tl_decided = c17.eval_template_library(ctx, R)
    for file, fname in ((TL, "new"), (MG, "add_definitions")):
        if file == TL and tl_decided:
            continue
        fn = find_fn(file, fname)
        if fn is None:
            ctx.missing(R, "%s::%s" % (file, fname))
            continue
        prim = [m for m in method_calls(fn["body"], "add_primary")]
        if len(prim) != 1 or len(prim[0]["args"]) != 3:
            ctx.missing(R, "%s/one-primary-label" % fname, "add_primary x%d" % len(prim))
            continue
        a0, a1 = strip(prim[0]["args"][0]), strip(prim[0]["args"][1])
        le_ = let_env(fn["body"], prim[0])
        for _ in range(3):
            if a0["k"] == "Path" and a0["path"] in le_:
                a0 = strip(le_[a0["path"]])
        # the file id: a parameter of the function or the variable of the loop over (file id, definitions)
        params = [i["pat"]["name"] for i in fn["sig"]["inputs"] if not i.get("self") and i["pat"]["k"] == "PIdent"]
        loop_ids = set()
        for c in conditions_to(fn["body"], prim[0]) or []:
            if c[0] == "loop" and c[2] is not None and c[2]["k"] == "PTuple" and c[2]["elems"] and c[2]["elems"][0]["k"] == "PIdent":
                loop_ids.add(c[2]["elems"][0]["name"])
        id_ok = a1["k"] == "Path" and (a1["path"] in loop_ids or (a1["path"] in params and "file" in a1["path"]))
        # the location: `<meta>.file_location()` of a meta bound from the definition being added
        loc_ok = False
        if a0["k"] == "MethodCall" and a0["method"] in ("file_location", "location") and strip(a0["recv"])["k"] == "Path":
            mname = strip(a0["recv"])["path"]
            for n in walk(fn["body"]):
                if n["k"] in ("PStruct",) and last(n["path"]) in ("Function", "Template"):
                    b_, _r = a10.pattern_bindings(n)
                    if b_.get("meta") == mname:
                        loc_ok = True
        ctx.check(R, "%s/duplicate-error-located-at-the-dropped-definition" % fname, id_ok and loc_ok, "primary label (%s, %s): file id from the file being added=%s, location from the definition being added=%s" % (render(a0)[:40], render(a1)[:30], id_ok, loc_ok), site(file, prim[0]))


def rule_drop_is_error(ctx):
    R = "C02.7"
    ctx.rule(R, "every report that stands for `this definition / file could not be processed and was dropped` (the `*Error` variants of the lifting error enums and the parser's error structs) is built with Report::error")
    n = 0
    for p in reportflow.producers():
        q, fn, code = p["qual"], p["fn"], p["code"]
        name = None
        if q in ("CFGError", "IRError", "SSAError"):
            # the arm of `match self` that contains the constructor names the variant
            f = find_fn(p["file"], fn, q)
            for m in walk(f["body"]):
                if m["k"] == "Match":
                    for a in m["arms"]:
                        if any(x is p["node"] for x in walk(a["body"])):
                            from astlib import pat_paths
                            name = last(pat_paths(a["pat"])[0])
        elif p["file"] == "parser/src/errors.rs":
            name = q
        if not name:
            continue
        n += 1
        if name.endswith("Error"):
            ctx.check(R, "%s/%s/error-category" % (q if q != name else "parser", name), p["category"] == "error", "`%s` means the input could not be processed, but its report is a %s: hidden by `--level error`, and the run can end with exit status 0" % (name, p["category"]), site(p["file"], p["node"]))
        else:
            ctx.ok(R, "%s/%s/finding" % (q, name), "not an error variant (%s)" % p["category"], site(p["file"], p["node"]))
    ctx.floor(R, "error producers", n, 12)


def eval_version_gate(ctx, R, fn):
    """check_file_compiler_version by evaluation: the supported version is (5, 5, 5), the pragma's components range over
    {4, 5, 6}^3, plus the file without a pragma: a version error exactly when the major differs or (minor, patch) is
    larger; no pragma gives a warning and no error.  Returns True when decided."""
    import itertools

    import passeval
    from finfun import NONE, S, Unsupported
    from passeval import O, Panic, Sink

    ERR = "parser/src/errors.rs"
    try:
        w = passeval.PassWorld([ERR, LIB], LIB)
    except Exception:  # noqa: BLE001
        return False
    w.lenient_opaque = True
    tys = [i["ty"].replace(" ", "") for i in fn["sig"]["inputs"]]
    if tys != ["&Path", "Option<FileID>", "Option<Version>", "&Version"]:
        return False
    made = []

    def new_report(name, args):
        if name not in ("error", "warning", "info"):
            return ("K", "Report::" + name, tuple(args))
        r_ = ("O", "report:" + name, (("add_primary", ("PY", lambda *a: ("T", ()))), ("add_secondary", ("PY", lambda *a: ("T", ()))), ("add_note", ("PY", lambda *a: ("T", ())))))
        made.append(r_)
        return r_

    w.opaque = (("Report::", new_report),)
    wrong = []
    n = 0
    sup = ("T", (5, 5, 5))
    path = O("file_path")
    try:
        # (components far apart as well: an ordering computed as `minor * 1000 + patch` agrees on small numbers only)
        for req in list(itertools.product((4, 5, 6, 5000), repeat=3)) + [None]:
            del made[:]
            res = w.call_fn(fn, [path, S("Some", O("file-id")), NONE if req is None else S("Some", ("T", req)), sup])
            n += 1
            kind = res[1] if isinstance(res, tuple) and len(res) > 2 and res[0] == "S" else "?"
            if req is None:
                items = res[2][0] if kind == "Ok" else None
                items = list(items.items) if isinstance(items, Sink) else (list(items[1]) if isinstance(items, tuple) and items and items[0] == "L" else None)
                if kind != "Ok" or not items or len(items) != 1 or not (isinstance(items[0], tuple) and str(items[0][1]).startswith("report:warning")):
                    wrong.append("no pragma -> %s with %s (expected Ok with one warning)" % (kind, "?" if items is None else [x[1] if isinstance(x, tuple) else x for x in items]))
                continue
            want = "Ok" if (req[0] == 5 and (req[1] < 5 or (req[1] == 5 and req[2] <= 5))) else "Err"
            if kind != want:
                wrong.append("pragma %d.%d.%d against 5.5.5 -> %s (expected %s)" % (req + (kind, want)))
            elif kind == "Err" and not (isinstance(res[2][0], tuple) and str(res[2][0][1]).startswith("report:error")):
                wrong.append("pragma %d.%d.%d: the error is %r" % (req + (res[2][0],)))
            elif kind == "Ok":
                items = res[2][0]
                items = list(items.items) if isinstance(items, Sink) else (list(items[1]) if isinstance(items, tuple) and items and items[0] == "L" else None)
                if items:
                    wrong.append("pragma %d.%d.%d: accepted with %d report(s)" % (req + (len(items),)))
    except Unsupported as u:
        ctx.note("check_file_compiler_version is outside the evaluator's subset (%s): the symbolic evaluation applies" % u)
        return False
    except Panic as p_:
        wrong.append("panics (%s)" % p_)
    ctx.floor(R, "version worlds evaluated", n, 65)
    ctx.check(R, "check_file_compiler_version/gate", not wrong, "; ".join(wrong[:4]) or "65 worlds: error exactly when the major differs or (minor, patch) exceeds the supported one; without a pragma one warning", site(LIB, fn))
    return True


def rule_version_gate(ctx):
    R = "C02.8"
    ctx.rule(R, "a file is parsed without a version error exactly when its pragma's major version equals the supported one and its (minor, patch) is at most the supported one - decided by evaluating the gate over all 27 orderings of the three components")
    fn = find_fn(LIB, "check_file_compiler_version")
    if fn is None:
        return ctx.missing(R, "check_file_compiler_version")
    if eval_version_gate(ctx, R, fn):
        return
    from astlib import simplify_body
    import itertools

    import sgrep

    pv = sgrep.params(fn)
    if len(pv) < 4:
        return ctx.missing(R, "check_file_compiler_version/parameters")
    REQ, CMP = pv[2], pv[3]
    body = simplify_body(fn["body"])

    class Unknown(Exception):
        pass

    def comp(e):
        """(side, index) of `required_version.i` / `compiler_version.i`, or ('tuple', [..]) for tuples / whole versions"""
        e = strip(e)
        if e["k"] == "Field" and e["member"].isdigit() and strip(e["base"])["k"] == "Path" and strip(e["base"])["path"] in (REQ, CMP):
            return (strip(e["base"])["path"], int(e["member"]))
        if e["k"] == "Path" and e["path"] in (REQ, CMP):
            return ("tuple", [(e["path"], 0), (e["path"], 1), (e["path"], 2)])
        if e["k"] == "Tuple":
            return ("tuple", [comp(x) for x in e["elems"]])
        raise Unknown(render(e))

    def cmp_scalar(a, b, rel):
        # value of (a ? b) as -1/0/1 under the component relations rel[i] = sign(required.i - compiler.i)
        if a[0] == "tuple" or b[0] == "tuple":
            la = a[1] if a[0] == "tuple" else [a]
            lb = b[1] if b[0] == "tuple" else [b]
            if len(la) != len(lb):
                raise Unknown("tuple arity")
            for x, y in zip(la, lb):
                c = cmp_scalar(x, y, rel)
                if c != 0:
                    return c
            return 0
        if a[1] != b[1]:
            raise Unknown("comparison across components")
        if a[0] == b[0]:
            return 0
        return rel[a[1]] if a[0] == REQ else -rel[a[1]]

    def ev(e, rel):
        e = strip(e)
        if e["k"] == "Unary" and e["op"] == "!":
            return not ev(e["e"], rel)
        if e["k"] == "Binary" and e["op"] == "&&":
            return ev(e["l"], rel) and ev(e["r"], rel)
        if e["k"] == "Binary" and e["op"] == "||":
            return ev(e["l"], rel) or ev(e["r"], rel)
        if e["k"] == "Binary" and e["op"] in ("==", "!=", "<", "<=", ">", ">="):
            c = cmp_scalar(comp(e["l"]), comp(e["r"]), rel)
            return {"==": c == 0, "!=": c != 0, "<": c < 0, "<=": c <= 0, ">": c > 0, ">=": c >= 0}[e["op"]]
        if e["k"] == "Lit" and e.get("lit") == "bool":
            return bool(e["value"])
        raise Unknown(render(e)[:80])

    def holds(f, rel):
        if f[0] == "if":
            return ev(f[1], rel) == f[2]
        if f[0] == "notall":
            return not all(holds(g, rel) for g in f[1])
        if f[0] == "iflet":
            # `let Some(v) = required_version`: the pragma is present (the case decided here)
            t = render(f[1]).replace(" ", "")
            if t.startswith("Some("):
                return f[3]
            if t == "None":
                return not f[3]
            raise Unknown(fact_str(f))
        if f[0] == "arm":
            t = render(f[2]).replace(" ", "")
            if t.startswith("Some("):
                return True
            if t in ("None", "_"):
                return False
            raise Unknown(fact_str(f))
        raise Unknown(fact_str(f))

    wrong = []
    try:
        for rel in itertools.product((-1, 0, 1), repeat=3):
            outcome = None
            for conds, atoms, ex in enumerate_paths(body):
                if all(holds(f, rel) for f in conds):
                    last_ = atoms[-1] if atoms else None
                    v = last_["e"] if last_ is not None and last_.get("k") == "Return" else last_
                    t = render(strip(v)).replace(" ", "") if v is not None else ""
                    outcome = "Ok" if t.startswith("Ok(") else ("Err" if t.startswith("Err(") else "?")
                    break
            want = "Ok" if (rel[0] == 0 and (rel[1] < 0 or (rel[1] == 0 and rel[2] <= 0))) else "Err"
            if outcome != want:
                wrong.append("%s -> %s (expected %s)" % (rel, outcome, want))
        ctx.check(R, "check_file_compiler_version/gate", not wrong, "orderings (major, minor, patch of the pragma against the supported version) decided wrongly: %s" % wrong[:6], site(LIB, fn))
    except Unknown as u:
        ctx.missing(R, "check_file_compiler_version/gate", "cannot evaluate the version test: %s" % u)


def rule_cli_options(ctx, R="C02.15"):
    ctx.rule(R, "every file named on the command line reaches the tool as an input: the options are declared with names and defaults only - none takes a variable number of values, swallows what follows it, or installs its own value parser")
    MAIN_ = "cli/src/main.rs"
    cli = find_item(MAIN_, "StructDef", "Cli") if "find_item" in globals() else None
    if cli is None:
        from astlib import find_item as _fi

        cli = _fi(MAIN_, "StructDef", "Cli")
    if cli is None:
        return ctx.missing(R, "cli::Cli")
    text = facts.src(MAIN_)
    n = 0
    plain = {"short", "long", "name", "default_value", "help", "value_name", "long_help", "help_heading", "display_order", "default_value_t"}
    for f in cli["fields"]:
        mm = re.search(r"((?:#\[[^\n]*\]\s*|///[^\n]*\n\s*)*)\b%s\s*:" % re.escape(f["name"]), text)
        attrs = re.findall(r"#\[(?:clap|arg|command)\(((?:[^\[\]]|\[[^\]]*\])*)\)\]", mm.group(1), re.S) if mm else []
        keys = set()
        for a_ in attrs:
            keys |= set(re.findall(r"(\w+)\s*(?==|,|$)", re.sub(r"=\s*[^,]+", "=", a_)))
        n += 1
        extra = keys - plain
        ctx.check(R, "Cli/%s/declared-with-names-and-defaults-only" % f["name"], not extra, "clap attribute keys of `%s` besides naming and default: %s (e.g. `num_args = 1..` on an option makes it take the file names that follow it)" % (f["name"], sorted(extra)), site(MAIN_, cli))
    ctx.floor(R, "command-line options inspected", n, 6)
    inp = [f for f in cli["fields"] if f["name"] == "input_files"]
    ctx.check(R, "Cli/input_files/positional-list", len(inp) == 1 and inp[0]["ty"].replace(" ", "") == "Vec<PathBuf>", "input_files: %s" % (inp[0]["ty"] if inp else "?"), site(MAIN_, cli))


def run(ctx):
    rule_version_gate(ctx)
    rule_labels(ctx)
    rule_drop_is_error(ctx)
    rule_error_path(ctx)
    rule_add_files(ctx)
    rule_desugar(ctx)
    rule_tables(ctx)
    rule_duplicate_label(ctx)
    rule_cli_options(ctx)
    c03.rule_exit_status(ctx, "C02.6")
    dropflow.rule_consumed(ctx, "C02.10")
    import parseval

    ctx.rule("C02.14", "parse_files, evaluated on projects of up to three files (each parsed with warnings, with or without a main component, or failed; archive construction succeeding or not): every warning and error is in the collection returned, `multiple main components` is reported exactly when two parsed files - named or included - define one, the archive errors and library reports arrive, and desugaring runs on what was built")
    parseval.rule(ctx, "C02.14")
    import c05
    import c19

    ctx.include("C02.11", "the comment stripper agrees with the reference lexer on every string - in particular it returns the `unterminated comment` error exactly when a block comment is never closed (shared with C05.1)", lambda c: c05.run(c), only=["preprocess/"])
    ctx.include("C02.12", "a file named on the command line is a user input however it was first reached: user inputs are the set of canonical paths queued from the command line (shared with C19.1/C19.4) - otherwise its findings, including its errors, are filtered out as library findings", c19.rule_canonical, c19.rule_user_inputs)
    import c18

    ctx.include("C02.16", "an error about an anonymous component call is located at the call - in the file the user handed in - and not at the template it names, which may live in an included file whose reports are filtered out (shared with C18.4)", c18.rule_binding, only=["anonymous/error-located-at-the-call", "anonymous/arity-checked"])
    ctx.include("C02.9", "prerequisite shared with C03.1: the cached reports of a definition (including the error of a failed lifting) are drained after they were produced and written unconditionally - an early return before the write drops them silently", c03.rule_drain)
