"""A5: extract the comment stripper as a finite transducer and compare it with the
reference comment lexer for ALL input strings (product search).

The stripper is a hand-written character loop.  `Machine` interprets ONE loop
iteration abstractly: control variables (those tested in conditions) carry
concrete small values, position/data variables are opaque, and every character
the iteration reads or peeks is chosen from a finite alphabet of class
representatives (the characters occurring in its patterns + one other 1-byte,
one 2-byte and one 4-byte character) or EOF.  The result is the complete
macro-transition relation.  `compare` walks the product with the reference
lexer; configurations are (control state, pending lookahead, reference state,
output delay) - finitely many - so agreement is decided for every string."""
from astlib import is_node, last, render, strip, walk


class Unsupported(Exception):
    pass


class NeedChoice(Exception):
    pass


class _Opaque:
    def __repr__(self):
        return "<data>"


OPAQUE = _Opaque()
EOF = "<EOF>"


class LoopExit(Exception):
    def __init__(self, kind, value=None):
        self.kind, self.value = kind, value  # break | continue | return-ok | return-err


class Machine:
    def __init__(self, fn):
        self.fn = fn
        body = fn["body"]
        self.pre, self.loop, self.post = [], None, []
        # constants of the function body and of the file (literal-valued): names for states / characters
        self.consts = {}
        import facts as _facts
        from astlib import all_items as _all_items
        for _f, _items in _facts.ast().items():
            if any(it is fn or (it.get("k") == "Impl" and fn in it.get("items", [])) for _p, it in _all_items(_items)):
                for _p, it in _all_items(_items):
                    if it.get("k") == "Const" and it.get("expr", {}).get("k") == "Lit":
                        self.consts[it["name"]] = it["expr"]
        for x in body["stmts"]:
            if x["k"] == "ItemStmt" and x["item"].get("k") == "Const" and x["item"].get("expr", {}).get("k") == "Lit":
                self.consts[x["item"]["name"]] = x["item"]["expr"]
        for s in body["stmts"]:
            e = s.get("e") if s["k"] == "ExprStmt" else None
            if self.loop is None and e is not None and e["k"] in ("While", "For", "Loop"):
                self.loop = e
            elif self.loop is None:
                self.pre.append(s)
            else:
                self.post.append(s)
        if self.loop is None:
            raise Unsupported("no character loop found")
        params = [i["pat"]["name"] for i in fn["sig"]["inputs"] if not i.get("self") and i["pat"]["k"] == "PIdent"]
        self.input_param = params[0] if params else None
        # iterator variables and their flavour
        self.iters = {}  # name -> {"indices": bool}
        self.init = {}
        self.outbuf = None
        for s in self.pre:
            if s["k"] != "Local" or s["pat"]["k"] != "PIdent" or s["init"] is None:
                continue
            name, init = s["pat"]["name"], s["init"]
            t = render(init).replace(" ", "")
            if t.startswith(self.input_param + ".char"):
                if ".chars()" in t:
                    self.iters[name] = {"indices": False}
                elif ".char_indices()" in t:
                    self.iters[name] = {"indices": True}
                else:
                    raise Unsupported("iterator " + t)
            elif t in ("String::new()", "String::with_capacity(%s.len())" % self.input_param, "String::default()"):
                self.outbuf = name
            else:
                v = self.lit_value(init)
                self.init[name] = v
        if self.loop["k"] == "For":
            t = render(self.loop["iter"]).replace(" ", "")
            if t == self.input_param + ".chars()":
                self.iters["<for>"] = {"indices": False}
            elif t == self.input_param + ".char_indices()":
                self.iters["<for>"] = {"indices": True}
            elif t in self.iters:
                self.iters["<for>"] = self.iters[t]
            else:
                raise Unsupported("for iterator " + t)
        if not self.iters or self.outbuf is None:
            raise Unsupported("iterator or output buffer not recognised")
        # control variables: tested in conditions / match scrutinees
        tested = set()
        for n in walk(fn["body"]):
            if n["k"] == "Match":
                tested |= {p["path"] for p in walk(n["scrut"]) if p["k"] == "Path"}
            elif n["k"] in ("If", "While"):
                tested |= {p["path"] for p in walk(n["cond"]) if p["k"] == "Path"}
        self.control = sorted(v for v in self.init if v in tested)
        self.alphabet = self.find_alphabet()

    def lit_value(self, e):
        e = strip(e)
        if e["k"] == "Lit" and e["lit"] == "int":
            return int(e["value"])
        if e["k"] == "Lit" and e["lit"] == "bool":
            return bool(e["value"])
        if e["k"] == "Path" and "::" in e["path"]:
            return ("enum", last(e["path"]))
        if e["k"] == "Path" and e["path"] == "None":
            return None
        if e["k"] == "Path" and e["path"] in getattr(self, "consts", {}):
            return self.lit_value(self.consts[e["path"]])
        return OPAQUE

    def find_alphabet(self):
        chars = set()
        for n in walk(self.fn["body"]):
            if n["k"] == "Lit" and n["lit"] == "char":
                chars.add(n["value"])
        for c in ("/", "*", "\n"):
            chars.add(c)
        for c in ("x", "é", "\U0001d11e"):
            chars.add(c)
        return sorted(chars)

    # ------------------------------------------------------------- running
    def initial_control(self):
        return tuple((v, self.init[v]) for v in self.control)

    def run_iteration(self, control, pending, choices):
        """One loop iteration (or loop end + post-loop code at EOF).
        control: tuple of (var, value); pending: list of chars already peeked but not consumed;
        choices: list of chars/EOF the oracle will deliver next.
        Returns dict(consumed, pending, out, control, end)."""
        self.env = {v: OPAQUE for v in self.init}
        self.env.update(dict(control))
        self.out = []
        self.consumed = []
        self.pending = list(pending)
        self.choices = list(choices)
        self.choice_pos = 0
        end = None
        try:
            self.iteration_head()
        except LoopExit as x:
            if x.kind == "continue":
                end = None
            elif x.kind == "break":
                end = self.finish()
            elif x.kind == "return-err":
                end = "err"
            elif x.kind == "return-ok":
                end = "ok"
            elif x.kind == "loop-end":
                end = self.finish()
        newc = tuple((v, self.env[v]) for v in self.control)
        for v, val in newc:
            if val is OPAQUE:
                raise Unsupported("control variable %s became data-dependent" % v)
        return {"consumed": list(self.consumed), "pending": list(self.pending), "out": "".join(self.out), "control": newc, "end": end}

    def finish(self):
        try:
            v = None
            for s in self.post:
                v = self.stmt(s)
            # tail expression value decides
            return self.verdict(v)
        except LoopExit as x:
            if x.kind == "return-err":
                return "err"
            if x.kind == "return-ok":
                return "ok"
            raise Unsupported("exit %s after the loop" % x.kind)

    def verdict(self, v):
        if isinstance(v, tuple) and v and v[0] == "Ok":
            return "ok"
        if isinstance(v, tuple) and v and v[0] == "Err":
            return "err"
        raise Unsupported("function result not Ok/Err: %r" % (v,))

    # input oracle
    def read(self, consume):
        if self.pending:
            c = self.pending[0]
            if consume:
                self.pending.pop(0)
                if c != EOF:
                    self.consumed.append(c)
            return c
        if self.choice_pos >= len(self.choices):
            raise NeedChoice()
        c = self.choices[self.choice_pos]
        self.choice_pos += 1
        if consume:
            if c != EOF:
                self.consumed.append(c)
        else:
            self.pending.append(c)
        return c

    def item(self, c, itname):
        if c == EOF:
            return None
        if self.iters[itname]["indices"]:
            return ("Some", ("tuple", (OPAQUE, c)))
        return ("Some", c)

    def iteration_head(self):
        lp = self.loop
        if lp["k"] == "While":
            c = lp["cond"]
            if c["k"] != "Let":
                raise Unsupported("while condition " + render(c))
            v = self.expr(c["e"])
            if not self.bind(c["pat"], v):
                raise LoopExit("loop-end")
            self.block(lp["body"])
        elif lp["k"] == "For":
            ch = self.read(True)
            if ch == EOF:
                raise LoopExit("loop-end")
            v = self.item(ch, "<for>")[1]
            if not self.bind(lp["pat"], v):
                raise Unsupported("for pattern")
            self.block(lp["body"])
        else:
            self.block(lp["body"])

    # ------------------------------------------------------------- patterns
    def bind(self, p, v):
        k = p["k"]
        if k == "PWild":
            return True
        if k == "PIdent":
            if p["name"] == "None" and p["sub"] is None:
                return v is None
            if p["name"] in self.consts and p["sub"] is None and not p.get("mut") and not p.get("by_ref"):
                # an identifier pattern that names a constant compares with it
                cv = self.expr(self.consts[p["name"]])
                if v is OPAQUE:
                    raise Unsupported("constant pattern on data value")
                return v == cv
            if p["sub"] is not None and not self.bind(p["sub"], v):
                return False
            self.env[p["name"]] = v
            return True
        if k == "PRef":
            return self.bind(p["pat"], v)
        if k == "PLit":
            lv = p["lit"]["value"]
            if p["lit"]["lit"] == "int":
                lv = int(lv)
            if v is OPAQUE:
                raise Unsupported("literal pattern on data value")
            return v == lv
        if k == "PTuple":
            if not (isinstance(v, tuple) and v and v[0] == "tuple" and len(v[1]) == len(p["elems"])):
                raise Unsupported("tuple pattern on %r" % (v,))
            return all(self.bind(q, x) for q, x in zip(p["elems"], v[1]))
        if k == "PTupleStruct":
            name = last(p["path"])
            if name == "Some":
                if v is None:
                    return False
                if isinstance(v, tuple) and v[0] == "Some":
                    return self.bind(p["elems"][0], v[1])
                raise Unsupported("Some pattern on %r" % (v,))
            raise Unsupported("pattern " + name)
        if k == "PPath":
            name = last(p["path"])
            if name == "None":
                return v is None
            if isinstance(v, tuple) and v and v[0] == "enum":
                return v[1] == name
            raise Unsupported("path pattern %s on %r" % (name, v))
        if k == "POr":
            return any(self.bind(c, v) for c in p["cases"])
        if k == "PRange":
            raise Unsupported("range pattern")
        raise Unsupported("pattern " + k)

    # ----------------------------------------------------------- statements
    def block(self, b):
        v = None
        for s in b["stmts"]:
            v = self.stmt(s)
        return v

    def stmt(self, s):
        k = s["k"]
        if k == "Local":
            v = self.expr(s["init"]) if s["init"] is not None else OPAQUE
            if not self.bind(s["pat"], v):
                if s["else"] is None:
                    raise Unsupported("refutable let")
                self.expr(s["else"])
            return None
        if k == "ExprStmt":
            v = self.expr(s["e"])
            return None if s["semi"] else v
        if k == "ItemStmt":
            return None
        raise Unsupported("statement " + k)

    def truth(self, v):
        if isinstance(v, bool):
            return v
        raise Unsupported("condition value %r" % (v,))

    def expr(self, e):
        k = e["k"]
        if k == "Lit":
            if e["lit"] == "int":
                return int(e["value"])
            return e["value"]
        if k == "Path":
            p = e["path"]
            if p in self.env:
                return self.env[p]
            if p == "None":
                return None
            if "::" in p:
                return ("enum", last(p))
            if p == self.input_param:
                return OPAQUE
            if p in self.consts:
                return self.expr(self.consts[p])
            raise Unsupported("variable " + p)
        if k in ("Ref",):
            return self.expr(e["e"])
        if k == "Unary":
            v = self.expr(e["e"])
            if e["op"] == "*":
                return v
            if e["op"] == "!":
                return not self.truth(v)
            if e["op"] == "-":
                return OPAQUE if v is OPAQUE else -v
            raise Unsupported("unary")
        if k == "Tuple":
            return ("tuple", tuple(self.expr(x) for x in e["elems"]))
        if k == "Block":
            return self.block(e)
        if k == "If":
            c = e["cond"]
            if c["k"] == "Let":
                v = self.expr(c["e"])
                saved = dict(self.env)
                if self.bind(c["pat"], v):
                    return self.block(e["then"])
                self.env = saved
                return self.expr(e["else"]) if e["else"] else None
            if self.truth(self.expr(c)):
                return self.block(e["then"])
            return self.expr(e["else"]) if e["else"] else None
        if k == "Match":
            v = self.expr(e["scrut"])
            for a in e["arms"]:
                saved = dict(self.env)
                if self.bind(a["pat"], v):
                    if a["guard"] is not None and not self.truth(self.expr(a["guard"])):
                        self.env = saved
                        continue
                    return self.expr(a["body"])
                self.env = saved
            raise Unsupported("no arm matches %r" % (v,))
        if k == "Binary":
            op = e["op"]
            if op in ("&&", "||"):
                l = self.truth(self.expr(e["l"]))
                if op == "&&":
                    return l and self.truth(self.expr(e["r"]))
                return l or self.truth(self.expr(e["r"]))
            if op in ("+=", "-=", "*="):
                tgt = render(e["l"])
                r = self.expr(e["r"])
                if tgt == self.outbuf:
                    if isinstance(r, str):
                        self.out.append(r)
                        return None
                    raise Unsupported("output += " + render(e["r"]))
                cur = self.env.get(tgt, OPAQUE)
                if cur is OPAQUE or r is OPAQUE:
                    self.env[tgt] = OPAQUE
                else:
                    self.env[tgt] = {"+=": cur + r, "-=": cur - r, "*=": cur * r}[op]
                return None
            a, b = self.expr(e["l"]), self.expr(e["r"])
            if op in ("==", "!="):
                if a is OPAQUE or b is OPAQUE:
                    raise Unsupported("comparison on data value: " + render(e))
                return (a == b) if op == "==" else (a != b)
            if a is OPAQUE or b is OPAQUE:
                if op in ("<", "<=", ">", ">="):
                    raise Unsupported("comparison on data value: " + render(e))
                return OPAQUE
            if op in ("+", "-", "*"):
                return {"+": a + b, "-": a - b, "*": a * b}[op]
            if op in ("<", "<=", ">", ">="):
                return {"<": a < b, "<=": a <= b, ">": a > b, ">=": a >= b}[op]
            raise Unsupported("binary " + op)
        if k == "Assign":
            tgt = render(e["l"])
            v = self.expr(e["r"])
            if tgt not in self.env:
                raise Unsupported("assignment to " + tgt)
            self.env[tgt] = v
            return None
        if k == "Range":
            a = self.expr(e["from"]) if e["from"] else 0
            b = self.expr(e["to"])
            if a is OPAQUE or b is OPAQUE:
                raise Unsupported("range over data value")
            return ("range", a, b + (1 if e["inclusive"] else 0))
        if k == "For":
            it = self.expr(e["iter"])
            if not (isinstance(it, tuple) and it[0] == "range"):
                raise Unsupported("inner for over " + render(e["iter"]))
            for i in range(it[1], it[2]):
                self.bind(e["pat"], i)
                self.block(e["body"])
            return None
        if k == "Break":
            raise LoopExit("break")
        if k == "Continue":
            raise LoopExit("continue")
        if k == "Return":
            v = self.expr(e["e"]) if e["e"] else None
            if isinstance(v, tuple) and v and v[0] == "Err":
                raise LoopExit("return-err")
            if isinstance(v, tuple) and v and v[0] == "Ok":
                raise LoopExit("return-ok")
            raise Unsupported("return value %r" % (v,))
        if k == "Call":
            f = render(e["func"])
            if f == "Err":
                return ("Err",)
            if f == "Ok":
                return ("Ok",)
            if f == "Some":
                return ("Some", self.expr(e["args"][0]))
            if f in ("Box::new", "String::from"):
                return self.expr(e["args"][0])
            return OPAQUE
        if k == "Struct":
            return OPAQUE
        if k == "Macro":
            name = last(e["name"])
            if name == "matches" and e.get("parsed"):
                v = self.expr(e["args"][0])
                saved = dict(self.env)
                r = self.bind(e["pat"], v)
                if r and e.get("guard") is not None:
                    r = self.truth(self.expr(e["guard"]))
                self.env = saved
                return r
            if name in ("debug", "trace"):
                return None
            raise Unsupported("macro " + name)
        if k == "MethodCall":
            m = e["method"]
            recv_t = render(strip(e["recv"]))
            if recv_t in self.iters:
                if m == "next" and not e["args"]:
                    return self.item(self.read(True), recv_t)
                if m == "peek" and not e["args"]:
                    return self.item(self.read(False), recv_t)
                if m == "next_if_eq" and len(e["args"]) == 1:
                    want = self.expr(e["args"][0])
                    c = self.read(False)
                    if c != EOF and (c == want or (isinstance(want, tuple) and want[1][1] == c)):
                        self.read(True)
                        return self.item(c, recv_t)
                    return None
                raise Unsupported("iterator method " + m)
            if recv_t == self.outbuf:
                if m == "push":
                    v = self.expr(e["args"][0])
                    if not isinstance(v, str) or len(v) != 1:
                        raise Unsupported("push of %r" % (v,))
                    self.out.append(v)
                    return None
                if m == "push_str":
                    v = self.expr(e["args"][0])
                    if not isinstance(v, str):
                        raise Unsupported("push_str of %r" % (v,))
                    self.out.append(v)
                    return None
                if m == "extend":
                    t = render(e["args"][0]).replace(" ", "")
                    import re

                    mm = re.fullmatch(r"(?:std::iter::)?repeat\('(.)'\)\.take\((.*)\)", t)
                    a = strip(e["args"][0])
                    ch = mm.group(1) if mm else None
                    if ch is None and a["k"] == "MethodCall" and a["method"] == "take" and len(a["args"]) == 1:
                        r0 = strip(a["recv"])
                        if r0["k"] == "Call" and r0["func"]["k"] == "Path" and last(r0["func"]["path"]) == "repeat" and len(r0["args"]) == 1:
                            cv = self.expr(r0["args"][0])
                            if isinstance(cv, str) and len(cv) == 1:
                                ch = cv
                    if ch is not None:
                        n = self.expr(a["args"][0])
                        if n is OPAQUE:
                            raise Unsupported("repeat count is data")
                        self.out.append(ch * n)
                        return None
                raise Unsupported("output method " + m)
            recv = self.expr(e["recv"])
            if m == "len_utf8" and isinstance(recv, str):
                return len(recv.encode("utf-8"))
            if m in ("is_none", "is_some"):
                return (recv is None) == (m == "is_none")
            if m in ("clone", "to_owned"):
                return recv
            if m == "repeat" and isinstance(recv, str):
                n = self.expr(e["args"][0])
                if n is OPAQUE:
                    raise Unsupported("repeat count is data")
                return recv * n
            if m in ("into_report", "into", "len", "unwrap", "unwrap_or", "saturating_sub", "to_string"):
                return OPAQUE
            raise Unsupported("method " + m)
        if k == "Field":
            return OPAQUE
        raise Unsupported("expression " + k)

    # --------------------------------------------------- transition relation
    def transitions(self, control, pending):
        """All outcomes of one iteration from (control, pending lookahead)."""
        results = []
        stack = [[]]
        while stack:
            ch = stack.pop()
            try:
                r = self.run_iteration(control, pending, ch)
                r["choices"] = ch
                results.append(r)
            except NeedChoice:
                for c in self.alphabet + [EOF]:
                    if ch and ch[-1] == EOF:
                        continue
                    stack.append(ch + [c])
            if len(results) > 5000:
                raise Unsupported("transition relation too large")
        return results


# --------------------------------------------------------------- reference
def ref_step(state, c):
    """Reference comment lexer (DESIGN App. C).  Returns (state, output)."""
    n = len(c.encode("utf-8"))
    if state == "CODE":
        if c == "/":
            return "SLASH", ""
        return "CODE", c
    if state == "SLASH":
        if c == "/":
            return "LINE", "  "
        if c == "*":
            return "BLOCK", "  "
        return "CODE", "/" + c
    if state == "LINE":
        if c == "\n":
            return "CODE", c
        return "LINE", " " * n
    if state == "BLOCK":
        if c == "*":
            return "STAR", " "
        return "BLOCK", " " * n
    if state == "STAR":
        if c == "/":
            return "CODE", " "
        if c == "*":
            return "STAR", " "
        return "BLOCK", " " * n
    raise ValueError(state)


def ref_eof(state):
    if state == "SLASH":
        return "ok", "/"
    if state in ("BLOCK", "STAR"):
        return "err", ""
    return "ok", ""


def ref_step_slash_fix(state, c):
    # SLASH followed by '/' again must re-enter SLASH handling: "/" + "/" is a line comment (handled above)
    return ref_step(state, c)


def compare(machine, max_nodes=4000):
    """Product search.  Returns (stats, differences) where each difference has a shortest witness."""
    from collections import deque

    start = (machine.initial_control(), (), "CODE", "", "")  # control, pending, ref state, impl-ahead, ref-ahead
    seen = {start: ""}
    q = deque([start])
    diffs = {}
    ntrans = 0
    states = set()
    while q:
        node = q.popleft()
        control, pending, rstate, ia, ra = node
        w = seen[node]
        states.add((control, pending))
        for t in machine.transitions(control, list(pending)):
            ntrans += 1
            rs = rstate
            rout = ""
            for c in t["consumed"]:
                rs, o = ref_step(rs, c)
                rout += o
            word = w + "".join(t["consumed"])
            iout = ia + t["out"]
            rfull = ra + rout
            if t["end"] is not None:
                # the loop ended: remaining pending chars are never processed
                left = [c for c in t["pending"] if c != EOF]
                if left and t["end"] == "ok":
                    cls = ("input-dropped", rs)
                    diffs.setdefault(cls, {"class": cls[0], "ref_state": rs, "witness": word + "".join(left), "detail": "the loop stops with %r unread and returns Ok" % "".join(left)})
                    continue
                at_eof = EOF in t["consumed"] or EOF in t["pending"] or EOF in t.get("choices", []) or EOF in pending
                if t["end"] == "err" and not at_eof:
                    # an error returned before the end of the input: whatever follows is never looked at, although the
                    # reference accepts e.g. the continuation that closes an open comment
                    cls = ("verdict-early", rs)
                    diffs.setdefault(cls, {"class": "verdict", "ref_state": rs, "witness": word + "".join(left), "detail": "stripper returns ERR after reading %r, before the end of the input; the reference accepts %r" % (word + "".join(left), word + "".join(left) + ("*/" if rs in ("BLOCK", "STAR") else ""))})
                    continue
                rv, ro = ref_eof(rs)
                rfull += ro
                if left:
                    continue
                if t["end"] != rv:
                    cls = ("verdict", rs, t["end"])
                    diffs.setdefault(cls, {"class": "verdict", "ref_state": rs, "witness": word, "detail": "stripper returns %s, reference %s at end of input" % (t["end"].upper(), rv.upper())})
                elif rv == "ok" and iout != rfull:
                    cls = ("output-at-eof", rs)
                    diffs.setdefault(cls, {"class": "output", "ref_state": rs, "witness": word, "detail": "final output differs: stripper %r, reference %r" % (iout, rfull)})
                continue
            # strip common prefix
            n = 0
            while n < len(iout) and n < len(rfull) and iout[n] == rfull[n]:
                n += 1
            ia2, ra2 = iout[n:], rfull[n:]
            if ia2 and ra2:
                cls = ("output", rs, control)
                diffs.setdefault(cls, {"class": "output", "ref_state": rs, "witness": word, "detail": "outputs diverge after %r: stripper emits %r, reference %r" % (word, ia2[:8], ra2[:8])})
                continue
            if len(ia2) > 8 or len(ra2) > 8:
                cls = ("delay", rs, control)
                diffs.setdefault(cls, {"class": "output-length", "ref_state": rs, "witness": word, "detail": "output lengths drift apart (stripper ahead %d, reference ahead %d bytes)" % (len(ia2), len(ra2))})
                continue
            nxt = (t["control"], tuple(t["pending"]), rs, ia2, ra2)
            if nxt not in seen:
                if len(seen) >= max_nodes:
                    cls = ("unbounded",)
                    diffs.setdefault(cls, {"class": "state-space", "ref_state": rs, "witness": word, "detail": "more than %d product configurations: the stripper is not a small finite-state machine" % max_nodes})
                    q.clear()
                    break
                seen[nxt] = word
                q.append(nxt)
    stats = {"product_configurations": len(seen), "macro_transitions": ntrans, "stripper_states": len(states), "alphabet": machine.alphabet + [EOF], "control_variables": machine.control}
    return stats, list(diffs.values())
