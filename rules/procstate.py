"""No process-wide state: what a pass reports is a function of the graph, the curve and the context it is given.

A `static` that can change after start-up - `static mut`, or a static whose type has interior mutability (OnceLock,
OnceCell, Lazy*, Mutex, RwLock, RefCell, Cell, atomics) - and the `thread_local!` / `lazy_static!` macros make the
result of analysing one definition depend on which definitions (with which curve, from which file) were analysed
before it in the same process.  The rule reports every such item in hand-written, non-test code, at file level or
inside a function.  The expected number is zero, so a positive example (fixtures/positive/process_state.rs) is
parsed on every run and must give its three hits."""
import json
import os
import re
import subprocess

import facts

SHARED = re.compile(r"\b(OnceLock|OnceCell|LazyLock|LazyCell|Lazy|Mutex|RwLock|RefCell|Cell|UnsafeCell|Atomic[A-Z]\w*)\b")
MACROS = ("thread_local", "lazy_static")


def _scan(node, out, where):
    if isinstance(node, dict):
        k = node.get("k")
        if k == "Const" and node.get("static"):
            ty = str(node.get("ty") or "")
            if node.get("mut"):
                out.append((node.get("line", 0), "static mut %s" % node.get("name"), where))
            elif SHARED.search(ty):
                out.append((node.get("line", 0), "static %s: %s" % (node.get("name"), ty), where))
        elif k in ("ItemMacro", "Macro"):
            mac = node.get("mac") if k == "ItemMacro" else node
            name = str((mac or {}).get("name") or "")
            if name.split("::")[-1].strip() in MACROS:
                out.append((node.get("line", 0), name.split("::")[-1].strip() + "!", where))
        for key, v in node.items():
            _scan(v, out, node.get("name") if k == "Fn" else where)
    elif isinstance(node, list):
        for v in node:
            _scan(v, out, where)


def hits(items):
    out = []
    _scan(items, out, None)
    seen, uniq = set(), []
    for h in out:
        if (h[0], h[1]) not in seen:
            seen.add((h[0], h[1]))
            uniq.append(h)
    return uniq


def positive_example():
    root = os.path.join(facts.VERIF, "fixtures", "positive")
    p = subprocess.run([facts.ASTQ, "files", root, "process_state.rs"], capture_output=True, text=True)
    if p.returncode != 0:
        return None
    data = json.loads(p.stdout)
    f = data["files"][0]
    return hits(f.get("items") or [])


def rule(ctx, R, text=None):
    ctx.rule(R, text or "no process-wide state: no `static mut`, no static with interior mutability (OnceLock, Lazy, Mutex, atomics ..) and no thread_local! / lazy_static! in hand-written non-test code - what is reported for a definition cannot depend on what was analysed before it")
    facts.ensure_engines()
    pos = positive_example()
    ctx.check(R, "process-state/positive-example", pos is not None and len(pos) == 3, "the rule finds %s in fixtures/positive/process_state.rs, expected 3 constructs" % (None if pos is None else [h[1] for h in pos]))
    n = 0
    for f, items in sorted(facts.ast().items()):
        if f.startswith("program_structure_tests") or "/tests/" in f or f.endswith("_tests.rs"):
            continue
        n += 1
        # test modules inside a file: items under `mod tests` are skipped by name
        for line, what, where in hits([it for it in items if not (it.get("k") == "Mod" and it.get("name") in ("tests", "test"))]):
            ctx.bad(R, "%s/%s/%s" % (f.rsplit("/", 1)[-1][:-3], where or "file", what.split(":")[0].replace(" ", "-")), "`%s`%s survives from one analysed definition to the next: the result for a definition depends on what the process looked at before" % (what, (" in " + where) if where else ""), (f, line))
    ctx.floor(R, "source files scanned for process-wide state", n, 60)
    ctx.check(R, "process-state/none", True, "%d files scanned" % n)
